/* e_fmt - C02: every file the library closes is a well-formed HDF4 file that an independent reader understands.
 *
 * Per case one or more files are produced with the REAL library:
 *   cases 0 .. NWORKLOADS-1        the workloads of workloads.h; both the prep file and the file after the session are checked
 *   cases >= NWORKLOADS            a seeded random history over the H, V/VS, AN, GR and SD interfaces:
 *       ndds in {4,5,16}, descriptor cache on/off, plain / reserved (Hstartwrite longer than written) / linked-block
 *       (created, converted, appended-after-something-else, with holes) / external (HXcreate) / compressed (HCcreate
 *       none, rle, skphuff, deflate, nbit; also interleaved with other writes so that the compressed stream itself
 *       becomes a linked-block element) / chunked (HMCcreate, with and without compressed chunks, unwritten chunks)
 *       elements, Hdupdd aliases, Hdeldd holes, Vdatas with vdata and field attributes, appendable Vdatas, nested
 *       Vgroups with attributes, annotations, GR images with palettes, SDS (fixed, unlimited, compressed, chunked,
 *       chunked+compressed, empty, with attributes and dimension scales), several sessions (close / reopen);
 *       SD sessions on an existing file also modify what is there: records are appended to the unlimited data sets
 *       (each its own number, with and without a gap, fill mode on / off), existing records and sub-boxes of fixed-size
 *       data sets are overwritten - so that a file holds SEVERAL record variables of DIFFERENT record counts that grew
 *       in different sessions; one case in four is an SD-heavy history (an SD session after every H session).
 * After every close the file is
 *   (a) dumped through the LIBRARY into the canonical text of lean/H4/Driver/Fmt.lean:
 *         DD lines: Hfind over all descriptors, Hstartread + Hinquire + HDget_special_info + Hread of the whole logical element
 *         BLOCKS / CHUNK lines: HDgetdatainfo (HLgetdatainfo / HMCgetdatainfo underneath) for every special element / chunk
 *         VH / VG lines: the VDATA / VGROUP structures the library unpacked (VSattach / Vattach)
 *   (b) dumped by the independent reader:  $H4MODEL read <path>   (h4model, compiled Lean, H4.Format.decodeFile)
 *   and the two dumps are compared line by line ('?' = the reader knows that coder only structurally).
 *   (c) every raw-location query is repeated with info_count in {0 (NULL arrays), 1, n-1, n, n+1} into arrays that are
 *       followed by canary entries:  HDgetdatainfo, VSgetdatainfo, SDgetdatainfo, GRgetdatainfo, ANgetdatainfo.
 * Oracle keys:
 *   fmt-wf-<clause>          the reader rejects the file (clause = magic chain tag0 dup extent overlap special linked ext comp chunk vh vg xref version
 *                            group; nt sdd id = the old-style descriptive records DFTAG_NT / DFTAG_SDD / DFTAG_ID / DFTAG_LD of the NDG / SDG / RIG
 *                            groups and of the Var0.0 / RI0.0 Vgroups against the data elements they describe)
 *   fmt-sdd-mismatch         rank / dimension sizes / number type of the DFTAG_SDD + DFTAG_NT records of a data set's NDG differ from SDgetinfo
 *   fmt-id-mismatch          dimensions / components / number type of the DFTAG_ID + DFTAG_NT records of an image differ from GRgetiminfo
 *   fmt-content-mismatch     DD line differs (kind, raw extent, logical length or logical data)
 *   fmt-datainfo-mismatch    BLOCKS / CHUNK line differs, or an interface-level query differs from the element's block list
 *   fmt-datainfo-count       return value with 0 < info_count is not min(info_count, number of blocks)
 *   fmt-datainfo-overrun     an entry at index >= info_count was written
 *   fmt-vh-mismatch, fmt-vg-mismatch, fmt-version-mismatch, fmt-lines (different number of lines), fmt-api (a library call failed)
 * T lines (not replayed by a model: the comparison is made here): T fmt file <name> <size> => <fnv of the library dump> <lines>
 */
#include "hdf.h"
#include "mfhdf.h"
#include "hk.h"
#ifndef HCHUNKS_C
#define HCHUNKS_C "hchunks.c" /* found through -I<repo>/hdf/src, so that VERIF_REPO selects the tree */
#endif
#include HCHUNKS_C
#include "vg_priv.h"
#include "mfgr_priv.h"
#include "mfan_priv.h"
#include "mf_priv.h"
#include "nc_priv.h"
#include "workloads.h"
#include <stdarg.h>
#include <fcntl.h>

/* ------------------------------------------------------------------ line buffers */
typedef struct { char **l; int n, cap; } lines_t;
static void ln_add(lines_t *L, const char *fmt, ...)
{
    char buf[16384]; va_list ap; va_start(ap, fmt); vsnprintf(buf, sizeof buf, fmt, ap); va_end(ap);
    if (L->n == L->cap) { L->cap = L->cap ? L->cap * 2 : 256; L->l = realloc(L->l, sizeof(char *) * (size_t)L->cap); }
    L->l[L->n++] = strdup(buf);
}
static void ln_free(lines_t *L) { for (int i = 0; i < L->n; i++) free(L->l[i]); free(L->l); L->l = NULL; L->n = L->cap = 0; }

static uint64_t fnv(const uint8_t *p, size_t n) { uint64_t h = 0xcbf29ce484222325ULL; for (size_t i = 0; i < n; i++) h = (h ^ p[i]) * 0x100000001b3ULL; return h; }
static void hexs(char *out, size_t cap, const char *s, size_t n)
{
    if (n == 0) { snprintf(out, cap, "-"); return; }
    size_t o = 0; for (size_t i = 0; i < n && o + 3 < cap; i++) o += (size_t)snprintf(out + o, cap - o, "%02x", (unsigned char)s[i]);
}
static const char *coder_name(int32 c)
{
    static char b[32];
    switch (c) { case COMP_CODE_NONE: return "none"; case COMP_CODE_RLE: return "rle"; case COMP_CODE_NBIT: return "nbit";
                 case COMP_CODE_SKPHUFF: return "skphuff"; case COMP_CODE_DEFLATE: return "deflate"; case COMP_CODE_SZIP: return "szip"; }
    snprintf(b, sizeof b, "coder%d", (int)c); return b;
}

/* ------------------------------------------------------------------ raw-location queries with canaries */
#define CANARY 0x5a5a1234
#define MAXBLK 4096
typedef struct { int n; int32 off[MAXBLK], len[MAXBLK]; } blist_t;

typedef int (*query_fn)(void *ctx, unsigned info_count, int32 *off, int32 *len);
static long n_queries, n_overrun, n_count;

/* full list through `q`; then the info_count variants.  `what` names the query for messages. */
static int query_all(query_fn q, void *ctx, const char *what, blist_t *out)
{
    int n = q(ctx, 0, NULL, NULL);
    out->n = 0;
    if (n == FAIL) return FAIL;
    if (n > MAXBLK - 8) { hk_fail("fmt-api", "%s: %d blocks", what, n); return FAIL; }
    unsigned ks[5] = {1, (unsigned)(n > 0 ? n - 1 : 0), (unsigned)n, (unsigned)n + 1, 0};
    for (int t = 0; t < 4; t++) {
        unsigned k = ks[t];
        if (k == 0) continue;
        int dup = 0; for (int u = 0; u < t; u++) if (ks[u] == k) dup = 1;
        if (dup) continue;
        size_t tot = (size_t)k + (size_t)n + 16;
        int32 *o = malloc(sizeof(int32) * tot), *l = malloc(sizeof(int32) * tot);
        for (size_t i = 0; i < tot; i++) o[i] = l[i] = CANARY;
        int r = q(ctx, k, o, l);
        n_queries++;
        int over = 0; for (size_t i = k; i < tot; i++) if (o[i] != CANARY || l[i] != CANARY) over++;
        if (over) { n_overrun++; hk_fail("fmt-datainfo-overrun", "%s: info_count=%u, element has %d blocks: %d entries beyond the caller's array were written (returned %d)", what, k, n, over, r); }
        int want = (int)k < n ? (int)k : n;
        if (r != want && !over) { n_count++; hk_fail("fmt-datainfo-count", "%s: info_count=%u, element has %d blocks: returned %d, want %d", what, k, n, r, want); }
        if (k == (unsigned)n + 1 && r == n && !over) { out->n = n; for (int i = 0; i < n; i++) { out->off[i] = o[i]; out->len[i] = l[i]; } }
        else if (k <= (unsigned)n && r >= 0) {
            /* prefix property, checked against the full list later by the caller through `out` when available */
        }
        free(o); free(l);
    }
    if (n == 0) out->n = 0;
    else if (out->n != n) { /* the n+1 call failed: take the list with a big array */
        static int32 o[MAXBLK], l[MAXBLK];
        int r = q(ctx, MAXBLK, o, l);
        if (r != n) { hk_fail("fmt-datainfo-count", "%s: NULL arrays report %d blocks, a %d-entry array reports %d", what, n, MAXBLK, r); if (r < 0) return FAIL; }
        out->n = r; for (int i = 0; i < r; i++) { out->off[i] = o[i]; out->len[i] = l[i]; }
    }
    return n;
}
static void blist_str(const blist_t *b, char *out, size_t cap)
{
    size_t o = (size_t)snprintf(out, cap, "%d", b->n);
    for (int i = 0; i < b->n && o + 40 < cap; i++) o += (size_t)snprintf(out + o, cap - o, " %d,%d", (int)b->off[i], (int)b->len[i]);
}
static int blist_eq(const blist_t *a, const blist_t *b)
{
    if (a->n != b->n) return 0;
    for (int i = 0; i < a->n; i++) if (a->off[i] != b->off[i] || a->len[i] != b->len[i]) return 0;
    return 1;
}

typedef struct { int32 fid; uint16 tag, ref; int32 *coord; } hd_ctx;
static int q_hd(void *c, unsigned k, int32 *o, int32 *l) { hd_ctx *h = c; return HDgetdatainfo(h->fid, h->tag, h->ref, h->coord, 0, k, o, l); }
static int q_vs(void *c, unsigned k, int32 *o, int32 *l) { return VSgetdatainfo(*(int32 *)c, 0, k, o, l); }
static int q_gr(void *c, unsigned k, int32 *o, int32 *l) { return GRgetdatainfo(*(int32 *)c, 0, k, o, l); }
typedef struct { int32 sds; int32 *coord; } sd_ctx;
static int q_sd(void *c, unsigned k, int32 *o, int32 *l) { sd_ctx *s = c; return SDgetdatainfo(s->sds, s->coord, 0, k, o, l); }

/* ------------------------------------------------------------------ library-side dump */
typedef struct { uint16 tag, ref; int32 off, len; int special; int key; int holes; int32 loglen; blist_t *bl; /* plain: NULL */
                 int nchunks; int32 (*ccoord)[8]; blist_t *cbl; int rank; } obj_t;
static obj_t *objs; static int nobjs;

static obj_t *obj_find(uint16 tag, uint16 ref)
{
    for (int i = 0; i < nobjs; i++) if (BASETAG(objs[i].tag) == BASETAG(tag) && objs[i].ref == ref) return &objs[i];
    return NULL;
}
/* the block list of an object as HDgetdatainfo defines it, from the library's own answers */
static int obj_blocks(uint16 tag, uint16 ref, blist_t *out)
{
    obj_t *o = obj_find(tag, ref); out->n = 0;
    if (!o) return -1;
    if (o->off == -1 && o->len == -1) return 0;
    if (!o->special) { out->n = 1; out->off[0] = o->off; out->len[0] = o->len; return 1; }
    if (o->bl) *out = *o->bl;
    return out->n;
}
static void objs_free(void)
{
    for (int i = 0; i < nobjs; i++) { free(objs[i].bl); free(objs[i].ccoord); free(objs[i].cbl); }
    free(objs); objs = NULL; nobjs = 0;
}

/* the old-style description of an image (DFTAG_ID + DFTAG_NT, read with H calls only) against the GR interface's answers */
static long n_desc;
static void desc_image(int32 fid, int32 ri, ri_info_t *rp, int k)
{
    char nm[H4_MAX_GR_NAME + 1]; int32 nc, nt, il, dims[2], nat;
    if (rp->img_dim.dim_ref == DFREF_WILDCARD || Hexist(fid, DFTAG_ID, rp->img_dim.dim_ref) == FAIL) return;
    if (GRgetiminfo(ri, nm, &nc, &nt, &il, dims, &nat) == FAIL) { hk_fail("fmt-api", "GRgetiminfo(%d)", k); return; }
    uint8 b[32], *p = b; int32 len = Hlength(fid, DFTAG_ID, rp->img_dim.dim_ref);
    if (len != 20 || Hgetelement(fid, DFTAG_ID, rp->img_dim.dim_ref, b) == FAIL) { hk_fail("fmt-id-mismatch", "image %d (%s): DFTAG_ID/%u has %d bytes, not 20", k, nm, rp->img_dim.dim_ref, (int)len); return; }
    int32 xd, yd; uint16 ntt, ntr; int16 ncomp, ilv;
    INT32DECODE(p, xd); INT32DECODE(p, yd); UINT16DECODE(p, ntt); UINT16DECODE(p, ntr); INT16DECODE(p, ncomp); INT16DECODE(p, ilv);
    n_desc++;
    if (xd != dims[0] || yd != dims[1] || ncomp != nc)
        hk_fail("fmt-id-mismatch", "image %d (%s): DFTAG_ID/%u says %d x %d pixels of %d components, GRgetiminfo %d x %d of %d", k, nm, rp->img_dim.dim_ref, (int)xd, (int)yd, (int)ncomp, (int)dims[0], (int)dims[1], (int)nc);
    if (ntt != 0 && ntr != 0) { uint8 n4[4];
        if (Hlength(fid, ntt, ntr) != 4 || Hgetelement(fid, ntt, ntr, n4) == FAIL) hk_fail("fmt-id-mismatch", "image %d (%s): number type %u/%u of DFTAG_ID/%u is not a 4-byte element", k, nm, ntt, ntr, rp->img_dim.dim_ref);
        else if (n4[1] != (uint8)(nt & 0xff) || n4[2] != (uint8)(DFKNTsize(nt) * 8))
            hk_fail("fmt-id-mismatch", "image %d (%s): number type record %u/%u says type %u width %u, GRgetiminfo type %d", k, nm, ntt, ntr, n4[1], n4[2], (int)nt); }
}

static int lib_dump(const char *path, lines_t *L)
{
    int32 fid = Hopen(path, DFACC_READ, 0);
    if (fid == FAIL) { hk_fail("fmt-api", "Hopen(%s) for reading failed: %s", path, HEstring((hdf_err_code_t)HEvalue(1))); return -1; }
    if (Vstart(fid) == FAIL) { hk_fail("fmt-api", "Vstart failed"); Hclose(fid); return -1; }
    /* all descriptors */
    int cap = 64; objs = malloc(sizeof(obj_t) * (size_t)cap); nobjs = 0;
    uint16 t = 0, r = 0; int32 o, l;
    while (Hfind(fid, DFTAG_WILDCARD, DFREF_WILDCARD, &t, &r, &o, &l, DF_FORWARD) != FAIL) {
        if (nobjs == cap) { cap *= 2; objs = realloc(objs, sizeof(obj_t) * (size_t)cap); }
        memset(&objs[nobjs], 0, sizeof(obj_t));
        objs[nobjs].tag = t; objs[nobjs].ref = r; objs[nobjs].off = o; objs[nobjs].len = l; objs[nobjs].special = SPECIALTAG(t) ? 1 : 0;
        nobjs++;
    }
    for (int i = 0; i < nobjs; i++) {
        obj_t *ob = &objs[i];
        char what[128];
        if (ob->off == -1 && ob->len == -1) { ln_add(L, "DD %u %u empty -1 -1 0 %016llx", ob->tag, ob->ref, (unsigned long long)fnv(NULL, 0)); continue; }
        int32 aid = Hstartread(fid, BASETAG(ob->tag), ob->ref);
        if (aid == FAIL) { hk_fail("fmt-api", "Hstartread(%u/%u) failed: %s", ob->tag, ob->ref, HEstring((hdf_err_code_t)HEvalue(1))); ln_add(L, "DD %u %u unreadable %d %d", ob->tag, ob->ref, (int)ob->off, (int)ob->len); continue; }
        int32 length = 0; int16 special = 0;
        Hinquire(aid, NULL, NULL, NULL, &length, NULL, NULL, NULL, &special);
        char kind[64] = "plain";
        sp_info_block_t info; memset(&info, 0, sizeof info);
        int rank = 0; int32 nch[8] = {0};
        if (ob->special) {
            if (HDget_special_info(aid, &info) == FAIL) { hk_fail("fmt-api", "HDget_special_info(%u/%u)", ob->tag, ob->ref); }
            switch (info.key) {
                case SPECIAL_LINKED: strcpy(kind, "linked"); break;
                case SPECIAL_EXT: strcpy(kind, "ext"); break;
                case SPECIAL_COMP: snprintf(kind, sizeof kind, "comp:%s", coder_name(info.comp_type)); break;
                case SPECIAL_CHUNKED: {
                    strcpy(kind, "chunked");
                    accrec_t *ar = HAatom_object(aid); chunkinfo_t *ci = (chunkinfo_t *)ar->special_info;
                    rank = ci->ndims; for (int d = 0; d < rank && d < 8; d++) nch[d] = ci->ddims[d].num_chunks;
                    free(info.cdims);
                } break;
                default: snprintf(kind, sizeof kind, "special%d", (int)info.key);
            }
        }
        ob->loglen = length; ob->key = ob->special ? info.key : 0;
        if (ob->special && info.key == SPECIAL_LINKED) {
            /* does the element have missing blocks?  slots needed to cover the length vs blocks present */
            int32 cnt = HDgetdatainfo(fid, BASETAG(ob->tag), ob->ref, NULL, 0, 0, NULL, NULL);
            long need = length <= info.first_len ? (length > 0 ? 1 : 0) : 1 + (info.block_len > 0 ? (length - info.first_len + info.block_len - 1) / info.block_len : 0);
            if (cnt != FAIL && cnt < need) { ob->holes = 1; hk_stat("linked_with_holes", 1); }
        }
        uint8 *buf = malloc((size_t)(length > 0 ? length : 1) + 64);
        int32 got = length > 0 ? Hread(aid, length, buf) : 0;
        if (got != length) hk_fail("fmt-api", "Hread(%u/%u kind %s) returned %d of %d", ob->tag, ob->ref, kind, (int)got, (int)length);
        ln_add(L, "DD %u %u %s %d %d %d %016llx", ob->tag, ob->ref, kind, (int)ob->off, (int)ob->len, (int)length, (unsigned long long)fnv(buf, (size_t)(got > 0 ? got : 0)));
        free(buf);
        Hendaccess(aid);
        if (!ob->special) continue;
        if (info.key == SPECIAL_CHUNKED) {
            long total = 1; for (int d = 0; d < rank; d++) total *= nch[d];
            if (rank > 8 || total > 4096) { hk_fail("fmt-api", "chunk grid too large for the harness"); continue; }
            ob->rank = rank; ob->ccoord = malloc(sizeof(int32[8]) * (size_t)(total ? total : 1)); ob->cbl = malloc(sizeof(blist_t) * (size_t)(total ? total : 1)); ob->nchunks = 0;
            for (long c = 0; c < total; c++) {
                int32 coord[8]; long x = c; for (int d = rank - 1; d >= 0; d--) { coord[d] = (int32)(x % nch[d]); x /= nch[d]; }
                hd_ctx hc = {fid, BASETAG(ob->tag), ob->ref, coord};
                char cs[128] = ""; { size_t q = 0; for (int d = 0; d < rank; d++) q += (size_t)snprintf(cs + q, sizeof cs - q, "%s%d", d ? "," : "", (int)coord[d]); }
                snprintf(what, sizeof what, "HDgetdatainfo(%u/%u chunk %s)", ob->tag, ob->ref, cs);
                blist_t bl; int n = query_all(q_hd, &hc, what, &bl);
                if (n == FAIL) { hk_fail("fmt-api", "%s failed", what); continue; }
                if (n == 0) continue;   /* chunk never written */
                char bs[8192]; blist_str(&bl, bs, sizeof bs);
                ln_add(L, "CHUNK %u %u %s %s", ob->tag, ob->ref, cs, bs);
                memcpy(ob->ccoord[ob->nchunks], coord, sizeof coord); ob->cbl[ob->nchunks] = bl; ob->nchunks++;
            }
        }
        else {
            hd_ctx hc = {fid, BASETAG(ob->tag), ob->ref, NULL};
            snprintf(what, sizeof what, "HDgetdatainfo(%u/%u %s)", ob->tag, ob->ref, kind);
            ob->bl = malloc(sizeof(blist_t));
            int n = query_all(q_hd, &hc, what, ob->bl);
            if (n == FAIL) {
                if (info.key == SPECIAL_COMP && length == 0)
                    hk_fail("hdgetdatainfo-comp-header-overread", "%s failed on a compressed element without data: it reads COMP_HEADER_LENGTH=14 bytes after the 2-byte code, the description record (%d bytes at %d) ends the file", what, (int)ob->len, (int)ob->off);
                else hk_fail("fmt-api", "%s failed", what);
                ob->bl->n = 0; }
            char bs[16384]; blist_str(ob->bl, bs, sizeof bs);
            ln_add(L, "BLOCKS %u %u %s", ob->tag, ob->ref, bs);
        }
    }
    /* Vdata headers */
    for (int i = 0; i < nobjs; i++) {
        if (BASETAG(objs[i].tag) != DFTAG_VH) continue;
        int32 vsid = VSattach(fid, objs[i].ref, "r");
        if (vsid == FAIL) { hk_fail("fmt-api", "VSattach(%u) failed: %s", objs[i].ref, HEstring((hdf_err_code_t)HEvalue(1))); ln_add(L, "VH %u unreadable", objs[i].ref); continue; }
        vsinstance_t *w = HAatom_object(vsid); VDATA *vs = w->vs;
        char nm[300], cl[300], fs[8192] = "", as[8192] = "";
        hexs(nm, sizeof nm, vs->vsname, strlen(vs->vsname)); hexs(cl, sizeof cl, vs->vsclass, strlen(vs->vsclass));
        size_t q = 0;
        for (int f = 0; f < vs->wlist.n; f++) { char fn[300]; hexs(fn, sizeof fn, vs->wlist.name[f], strlen(vs->wlist.name[f]));
            q += (size_t)snprintf(fs + q, sizeof fs - q, "%s%d:%u:%u:%u:%s", f ? ";" : "", (int)vs->wlist.type[f], vs->wlist.isize[f], vs->wlist.off[f], vs->wlist.order[f], fn); }
        q = 0;
        for (int a = 0; a < vs->nattrs; a++) q += (size_t)snprintf(as + q, sizeof as - q, "%s%d:%u:%u", a ? ";" : "", (int)vs->alist[a].findex, vs->alist[a].atag, vs->alist[a].aref);
        ln_add(L, "VH %u n=%s c=%s il=%d nv=%d ivsize=%u nf=%d fields=%s ex=%u/%u ver=%d more=%d flags=%u attrs=%s", objs[i].ref, nm, cl, (int)vs->interlace, (int)vs->nvertices,
               vs->wlist.ivsize, vs->wlist.n, vs->wlist.n ? fs : "-", vs->extag, vs->exref, (int)vs->version, (int)vs->more, (unsigned)vs->flags, vs->nattrs ? as : "-");
        /* VSgetdatainfo against the block list of DFTAG_VS/ref */
        { char what[96]; snprintf(what, sizeof what, "VSgetdatainfo(vdata %u)", objs[i].ref);
          blist_t got, want; int n = query_all(q_vs, &vsid, what, &got);
          if (n == FAIL) hk_fail("fmt-api", "%s failed: %s", what, HEstring((hdf_err_code_t)HEvalue(1)));
          else { if (vs->nvertices <= 0) want.n = 0; else obj_blocks(DFTAG_VS, objs[i].ref, &want);
                 if (!blist_eq(&got, &want)) { char a[4096], b[4096]; blist_str(&got, a, sizeof a); blist_str(&want, b, sizeof b); hk_fail("fmt-datainfo-mismatch", "%s reports [%s], the data element DFTAG_VS/%u has [%s]", what, a, objs[i].ref, b); } } }
        VSdetach(vsid);
    }
    /* Vgroups */
    for (int i = 0; i < nobjs; i++) {
        if (BASETAG(objs[i].tag) != DFTAG_VG) continue;
        int32 vgid = Vattach(fid, objs[i].ref, "r");
        if (vgid == FAIL) { hk_fail("fmt-api", "Vattach(%u) failed: %s", objs[i].ref, HEstring((hdf_err_code_t)HEvalue(1))); ln_add(L, "VG %u unreadable", objs[i].ref); continue; }
        vginstance_t *v = HAatom_object(vgid); VGROUP *vg = v->vg;
        char nm[600], cl[300]; static char ms[200000], as[8192]; ms[0] = as[0] = 0;
        hexs(nm, sizeof nm, vg->vgname ? vg->vgname : "", vg->vgname ? strlen(vg->vgname) : 0);
        hexs(cl, sizeof cl, vg->vgclass ? vg->vgclass : "", vg->vgclass ? strlen(vg->vgclass) : 0);
        size_t q = 0;
        for (unsigned m = 0; m < vg->nvelt && q + 32 < sizeof ms; m++) q += (size_t)snprintf(ms + q, sizeof ms - q, "%s%u/%u", m ? ";" : "", vg->tag[m], vg->ref[m]);
        q = 0;
        for (int a = 0; a < vg->nattrs; a++) q += (size_t)snprintf(as + q, sizeof as - q, "%s%u/%u", a ? ";" : "", vg->alist[a].atag, vg->alist[a].aref);
        ln_add(L, "VG %u n=%s c=%s nvelt=%u members=%s ex=%u/%u ver=%d more=%d flags=%u attrs=%s", objs[i].ref, nm, cl, vg->nvelt, vg->nvelt ? ms : "-", vg->extag, vg->exref,
               (int)vg->version, (int)vg->more, (unsigned)vg->flags, vg->nattrs ? as : "-");
        Vdetach(vgid);
    }
    { uint32 ma, mi, re; char s[LIBVSTR_LEN + 1]; if (obj_find(DFTAG_VERSION, 1) && Hgetfileversion(fid, &ma, &mi, &re, s) != FAIL) ln_add(L, "VERSION %u %u %u", ma, mi, re); }

    /* GR images and annotations: raw locations */
    { int32 gr = GRstart(fid);
      if (gr != FAIL) {
          int32 nimg = 0, nat = 0; GRfileinfo(gr, &nimg, &nat);
          for (int32 k = 0; k < nimg; k++) {
              int32 ri = GRselect(gr, k); if (ri == FAIL) { hk_fail("fmt-api", "GRselect(%d)", (int)k); continue; }
              ri_info_t *rp = HAatom_object(ri);
              obj_t *ob = obj_find(rp->img_tag, rp->img_ref);
              desc_image(fid, ri, rp, (int)k);
              if (ob && ob->special && ob->cbl) { GRendaccess(ri); continue; }   /* chunked image: GRgetdatainfo has no chunk argument */
              char what[96]; snprintf(what, sizeof what, "GRgetdatainfo(image %d = %u/%u)", (int)k, rp->img_tag, rp->img_ref);
              blist_t got, want; int n = query_all(q_gr, &ri, what, &got);
              if (n == FAIL) hk_fail("fmt-api", "%s failed: %s", what, HEstring((hdf_err_code_t)HEvalue(1)));
              else { if (obj_blocks(rp->img_tag, rp->img_ref, &want) < 0) want.n = 0;
                     if (!blist_eq(&got, &want)) { char a[4096], b[4096]; blist_str(&got, a, sizeof a); blist_str(&want, b, sizeof b); hk_fail("fmt-datainfo-mismatch", "%s reports [%s], the element has [%s]", what, a, b); } }
              GRendaccess(ri);
          }
          GRend(gr);
      } }
    { int32 an = ANstart(fid);
      if (an != FAIL) {
          int32 cnt[4] = {0, 0, 0, 0}; ANfileinfo(an, &cnt[2], &cnt[3], &cnt[0], &cnt[1]);
          static const ann_type ty[4] = {AN_DATA_LABEL, AN_DATA_DESC, AN_FILE_LABEL, AN_FILE_DESC};
          static const uint16 tg[4] = {DFTAG_DIL, DFTAG_DIA, DFTAG_FID, DFTAG_FD};
          for (int y = 0; y < 4; y++) for (int32 k = 0; k < cnt[y]; k++) {
              int32 a = ANselect(an, k, ty[y]); if (a == FAIL) { hk_fail("fmt-api", "ANselect(%d,%d)", (int)k, y); continue; }
              uint16 atag, aref; int32 o1[3] = {CANARY, CANARY, CANARY}, l1[3] = {CANARY, CANARY, CANARY};
              if (ANid2tagref(a, &atag, &aref) == FAIL || ANgetdatainfo(a, o1, l1) == FAIL) hk_fail("fmt-api", "ANgetdatainfo(%d,%d) failed", (int)k, y);
              else { obj_t *ob = obj_find(tg[y], aref); int32 adj = y < 2 ? 4 : 0; n_queries++;
                     if (o1[1] != CANARY || l1[1] != CANARY) hk_fail("fmt-datainfo-overrun", "ANgetdatainfo wrote a second entry");
                     if (!ob || o1[0] != ob->off + adj || l1[0] != ob->len - adj) hk_fail("fmt-datainfo-mismatch", "ANgetdatainfo(%u/%u) reports %d,%d, descriptor has %d,%d (text starts %d bytes in)", tg[y], aref, (int)o1[0], (int)l1[0], ob ? (int)ob->off : -9, ob ? (int)ob->len : -9, (int)adj); }
              ANendaccess(a);
          }
          ANend(an);
      } }
    Vend(fid);
    if (Hclose(fid) == FAIL) hk_fail("fmt-api", "Hclose after reading failed");
    return 0;
}

static long n_rawcmp;
static void sd_raw_content(const char *path, int32 sds, int k, const blist_t *bl)
{
    char nm[H4_MAX_NC_NAME + 1]; int32 rank, dims[H4_MAX_VAR_DIMS], nt, nat, st[H4_MAX_VAR_DIMS];
    if (SDgetinfo(sds, nm, &rank, dims, &nt, &nat) == FAIL) { hk_fail("fmt-api", "SDgetinfo(%d)", k); return; }
    long total = 1; for (int d = 0; d < rank; d++) { total *= dims[d]; st[d] = 0; }
    int sz = DFKNTsize(nt); if (total <= 0 || sz <= 0 || total * sz > 60000) return;
    uint8 *host = malloc((size_t)(total * sz)), *filed = malloc((size_t)(total * sz)), *raw = malloc((size_t)(total * sz) + 8);
    if (SDreaddata(sds, st, NULL, dims, host) == FAIL) { hk_fail("fmt-api", "SDreaddata(%d) failed", k); goto out; }
    DFKsetNT(nt); DFKconvert(host, filed, nt, (uint32)total, DFACC_WRITE, 0, 0);
    { long have = 0; FILE *f = fopen(path, "rb");
      for (int i = 0; i < bl->n && f; i++) { long want = bl->len[i]; if (have + want > total * sz) want = total * sz - have; if (want <= 0) break;
          fseek(f, bl->off[i], SEEK_SET); if ((long)fread(raw + have, 1, (size_t)want, f) != want) { hk_fail("fmt-sd-raw-content", "sds %d (%s): block %d (%d,%d) is not inside the file", k, nm, i, (int)bl->off[i], (int)bl->len[i]); break; } have += want; }
      if (f) fclose(f);
      n_rawcmp++;
      if (have != total * sz) hk_fail("fmt-sd-raw-content", "sds %d (%s): the reported blocks hold %ld bytes, the data set has %ld", k, nm, have, total * sz);
      else if (memcmp(raw, filed, (size_t)have) != 0) { long at = 0; while (raw[at] == filed[at]) at++;
          /* own key for coordinate variables: the scale of an old-style (DFSD) dimension lives at an offset inside the shared DFTAG_SDS element,
             which SDgetdatainfo does not add (known finding sdgetdatainfo-oldstyle-dimscale, workloads dfsd_new / dfsd_sd) */
          hk_fail(SDiscoordvar(sds) ? "fmt-sd-raw-content:coordvar" : "fmt-sd-raw-content", "sds %d (%s): bytes at the reported locations differ from SDreaddata (converted to file order) at byte %ld of %ld", k, nm, at, have); } }
out:
    free(host); free(filed); free(raw);
}

/* the old-style description of a data set (its NDG: DFTAG_SDD + DFTAG_NT, read with H calls only) against SDgetinfo */
static void desc_sds(int32 fid, int32 sds, NC_var *var, int k)
{
    char nm[H4_MAX_NC_NAME + 1]; int32 rank, dims[H4_MAX_VAR_DIMS], nt, nat;
    if (var->ndg_ref == 0 || Hexist(fid, DFTAG_NDG, var->ndg_ref) == FAIL) return;
    if (SDgetinfo(sds, nm, &rank, dims, &nt, &nat) == FAIL) { hk_fail("fmt-api", "SDgetinfo(%d)", k); return; }
    int32 glen = Hlength(fid, DFTAG_NDG, var->ndg_ref); if (glen <= 0 || glen > 4000) return;
    uint8 g[4000]; if (Hgetelement(fid, DFTAG_NDG, var->ndg_ref, g) == FAIL) { hk_fail("fmt-api", "Hgetelement(NDG %u)", var->ndg_ref); return; }
    uint16 sddref = 0; for (int i = 0; i + 4 <= glen; i += 4) { uint8 *p = g + i; uint16 t, r; UINT16DECODE(p, t); UINT16DECODE(p, r); if (t == DFTAG_SDD) sddref = r; }
    if (!sddref) return;
    int32 len = Hlength(fid, DFTAG_SDD, sddref); uint8 *b = malloc((size_t)(len > 0 ? len : 1) + 8), *p = b;
    if (len < 2 || Hgetelement(fid, DFTAG_SDD, sddref, b) == FAIL) { hk_fail("fmt-sdd-mismatch", "sds %d (%s): DFTAG_SDD/%u of NDG %u is not readable (%d bytes)", k, nm, sddref, var->ndg_ref, (int)len); free(b); return; }
    uint16 frank; UINT16DECODE(p, frank);
    n_desc++;
    if (frank != rank || len != 2 + 4 * (int32)frank + 4 * ((int32)frank + 1)) hk_fail("fmt-sdd-mismatch", "sds %d (%s): DFTAG_SDD/%u has rank %u and %d bytes, SDgetinfo rank %d", k, nm, sddref, frank, (int)len, (int)rank);
    else {
        for (int d = 0; d < rank; d++) { int32 v; INT32DECODE(p, v);
            if (v != dims[d]) hk_fail("fmt-sdd-mismatch", "sds %d (%s): dimension %d is %d in DFTAG_SDD/%u (NDG %u), %d through SDgetinfo", k, nm, d, (int)v, sddref, var->ndg_ref, (int)dims[d]); }
        uint16 ntt, ntr; UINT16DECODE(p, ntt); UINT16DECODE(p, ntr); uint8 n4[4];
        if (ntt != DFTAG_NT || Hlength(fid, ntt, ntr) != 4 || Hgetelement(fid, ntt, ntr, n4) == FAIL) hk_fail("fmt-sdd-mismatch", "sds %d (%s): number type %u/%u of DFTAG_SDD/%u is not a 4-byte DFTAG_NT", k, nm, ntt, ntr, sddref);
        else if (n4[1] != (uint8)(nt & 0xff) || n4[2] != (uint8)(DFKNTsize(nt) * 8))
            hk_fail("fmt-sdd-mismatch", "sds %d (%s): number type record %u/%u says type %u width %u, SDgetinfo type %d", k, nm, ntt, ntr, n4[1], n4[2], (int)nt);
    }
    free(b);
}

/* SD interface: raw locations of every data set (separate open: SDstart needs the path) */
static void sd_queries(const char *path)
{
    /* only files that contain SD structures (a CDF0.0 top Vgroup); SDstart on others would still work but adds nothing */
    int32 sd = SDstart(path, DFACC_READ);
    if (sd == FAIL) { hk_fail("fmt-api", "SDstart(%s) for reading failed", path); return; }
    int32 nds = 0, nat = 0; SDfileinfo(sd, &nds, &nat);
    for (int32 k = 0; k < nds; k++) {
        int32 sds = SDselect(sd, k); if (sds == FAIL) { hk_fail("fmt-api", "SDselect(%d)", (int)k); continue; }
        NC *handle = SDIhandle_from_id(sds, SDSTYPE); NC_var *var = handle ? SDIget_var(handle, sds) : NULL;
        if (!var) { hk_fail("fmt-api", "SDIget_var(%d)", (int)k); SDendaccess(sds); continue; }
        uint16 dtag = var->data_tag, dref = var->data_ref;
        obj_t *ob = dref ? obj_find(dtag, dref) : NULL;
        char what[128];
        desc_sds(handle->hdf_file, sds, var, (int)k);
        if (ob && ob->cbl) {
            /* chunked: every chunk of the grid; unwritten chunks report 0 blocks */
            HDF_CHUNK_DEF cd; int32 fl = 0; SDgetchunkinfo(sds, &cd, &fl);
            for (int c = 0; c < ob->nchunks; c++) {
                sd_ctx sc = {sds, ob->ccoord[c]};
                snprintf(what, sizeof what, "SDgetdatainfo(sds %d = %u/%u chunk #%d)", (int)k, dtag, dref, c);
                blist_t got; int n = query_all(q_sd, &sc, what, &got);
                if (n == FAIL) hk_fail("fmt-api", "%s failed", what);
                else if (!blist_eq(&got, &ob->cbl[c])) { char a[4096], b[4096]; blist_str(&got, a, sizeof a); blist_str(&ob->cbl[c], b, sizeof b); hk_fail("fmt-datainfo-mismatch", "%s reports [%s], the chunk has [%s]", what, a, b); }
            }
        }
        else {
            sd_ctx sc = {sds, NULL};
            snprintf(what, sizeof what, "SDgetdatainfo(sds %d = %u/%u)", (int)k, dtag, dref);
            blist_t got, want; int n = query_all(q_sd, &sc, what, &got);
            if (n == FAIL) hk_fail("fmt-api", "%s failed: %s", what, HEstring((hdf_err_code_t)HEvalue(1)));
            else { if (!dref || obj_blocks(dtag, dref, &want) < 0) want.n = 0;
                   if (!blist_eq(&got, &want)) { char a[4096], b[4096]; blist_str(&got, a, sizeof a); blist_str(&want, b, sizeof b); hk_fail("fmt-datainfo-mismatch", "%s reports [%s], the element has [%s]", what, a, b); }
                   /* uncompressed data: the bytes AT the reported locations are the values SDreaddata returns (in file byte order) */
                   else if (ob && !ob->holes && (ob->key == 0 || ob->key == SPECIAL_LINKED) && got.n > 0) sd_raw_content(path, sds, (int)k, &got); }
        }
        SDendaccess(sds);
    }
    SDend(sd);
}

/* ------------------------------------------------------------------ the independent reader */
static const char *model_path(void)
{
    static char p[1024]; const char *e = getenv("H4MODEL");
    if (e && *e) return e;
    const char *t = getenv("HK_TMP");
    snprintf(p, sizeof p, "%s/../../lean/.lake/build/bin/h4model", t ? t : "/verif/.work/tmp");
    return p;
}
static int model_dump(const char *path, lines_t *M, char *wf, size_t wfcap)
{
    char cmd[2048]; snprintf(cmd, sizeof cmd, "'%s' read '%s' 2>&1", model_path(), path);
    fflush(stdout);
    FILE *p = popen(cmd, "r"); if (!p) return -1;
    static char line[1 << 20]; wf[0] = 0;
    while (fgets(line, sizeof line, p)) {
        size_t n = strlen(line); while (n && (line[n - 1] == '\n' || line[n - 1] == '\r')) line[--n] = 0;
        if (line[0] == '#' || n == 0) continue;
        if (strncmp(line, "WF ", 3) == 0) { snprintf(wf, wfcap, "%s", line); continue; }
        ln_add(M, "%s", line);
    }
    int rc = pclose(p);
    return rc == 0 && wf[0] ? 0 : -1;
}

static int dd_line_eq(const char *a, const char *b)
{
    /* b = reader's line; its last token may be '?' */
    size_t lb = strlen(b);
    if (lb >= 2 && b[lb - 1] == '?' && b[lb - 2] == ' ') return strncmp(a, b, lb - 1) == 0 && strlen(a) > lb - 1 && strchr(a + lb - 1, ' ') == NULL;
    return strcmp(a, b) == 0;
}

static long n_files, n_dd, n_special, n_unknown;
static int keep_files;

/* check one closed file */
static void check_file(const char *path, const char *label)
{
    struct stat st; if (stat(path, &st) != 0) { hk_fail("fmt-api", "%s: no file", label); return; }
    lines_t L = {0}, M = {0}; char wf[4096];
    if (lib_dump(path, &L) < 0) { ln_free(&L); objs_free(); return; }
    sd_queries(path);
    if (model_dump(path, &M, wf, sizeof wf) < 0) { hk_fail("fmt-model", "%s: the reader did not run (%s): %s", label, model_path(), wf); ln_free(&L); ln_free(&M); objs_free(); return; }
    n_files++;
    if (strncmp(wf, "WF ok", 5) != 0) {
        char clause[64] = "?"; sscanf(wf, "WF FAIL %63s", clause);
        char key[96]; snprintf(key, sizeof key, "fmt-wf-%s", clause);
        hk_fail(key, "%s (%ld bytes): the reader rejects the file: %s", label, (long)st.st_size, wf);
        keep_files = 1;
    }
    else {
        int n = L.n < M.n ? L.n : M.n, bad = 0;
        for (int i = 0; i < n && bad < 6; i++) {
            const char *a = L.l[i], *b = M.l[i];
            int ok = strncmp(a, "DD ", 3) == 0 ? dd_line_eq(a, b) : strcmp(a, b) == 0;
            if (strncmp(b, "DD ", 3) == 0) { n_dd++; if (b[strlen(b) - 1] == '?') n_unknown++; }
            if (strncmp(b, "BLOCKS ", 7) == 0 || strncmp(b, "CHUNK ", 6) == 0) n_special++;
            if (ok) continue;
            const char *key = strncmp(a, "DD ", 3) == 0 ? "fmt-content-mismatch" : (strncmp(a, "BLOCKS ", 7) == 0 || strncmp(a, "CHUNK ", 6) == 0) ? "fmt-datainfo-mismatch"
                            : strncmp(a, "VH ", 3) == 0 ? "fmt-vh-mismatch" : strncmp(a, "VG ", 3) == 0 ? "fmt-vg-mismatch" : "fmt-version-mismatch";
            if (strncmp(a, "BLOCKS ", 7) == 0) { unsigned tg = 0, rf = 0; sscanf(a, "BLOCKS %u %u", &tg, &rf); obj_t *ob = obj_find((uint16)tg, (uint16)rf); if (ob && ob->tag == tg && ob->holes) key = "datainfo-linked-holes"; }
            hk_fail(key, "%s line %d: library [%.700s] reader [%.700s]", label, i, a, b);
            bad++; if (strcmp(key, "datainfo-linked-holes") != 0) keep_files = 1;
        }
        if (L.n != M.n) { hk_fail("fmt-lines", "%s: library dump has %d lines, reader dump %d; first extra: [%.300s]", label, L.n, M.n, L.n > M.n ? L.l[n] : M.l[n]); keep_files = 1; }
    }
    { uint64_t h = 0xcbf29ce484222325ULL; for (int i = 0; i < L.n; i++) h = (h ^ fnv((uint8_t *)L.l[i], strlen(L.l[i]))) * 0x100000001b3ULL;
      printf("T fmt file %s %ld => %016llx %d\n", label, (long)st.st_size, (unsigned long long)h, L.n); }
    ln_free(&L); ln_free(&M); objs_free();
}

/* ------------------------------------------------------------------ random histories */
static uint8 dbuf[70000];
static void fill_data(int n, int style)
{
    /* style 0: pseudo-random, 1: long runs (compressible), 2: ramp */
    uint8 v = hk_byte();
    for (int i = 0; i < n; i++) {
        if (style == 0) dbuf[i] = hk_byte();
        else if (style == 1) { if (hk_chance(3)) v = hk_byte(); dbuf[i] = v; }
        else dbuf[i] = (uint8)(i + v);
    }
}
#define CKF(x) do { if ((long)(x) == FAIL) { api_fail++; if (!first_fail[0]) snprintf(first_fail, sizeof first_fail, "%s: %s", #x, HEstring((hdf_err_code_t)HEvalue(1))); } } while (0)
static int api_fail; static char first_fail[512];
static uint16 next_ref;
static uint16 plain_refs[64]; static int nplain;      /* tag 3000 elements that exist and are plain */
static uint8 pinned[65536];                             /* refs of tag 3000 named by a vgroup or an annotation: never deleted */
static int32 vs_refs[32]; static int nvs;
static int32 vg_refs[32]; static int nvg;
static char ext_name[8][700]; static int next_i;

static void h_ops(int32 fid, int nops)
{
    for (int op = 0; op < nops; op++) {
        int kind = (int)hk_range(0, 15);
        uint16 ref = next_ref++;
        switch (kind) {
        case 0: case 1: { int n = (int)hk_range(1, 700); fill_data(n, (int)hk_range(0, 2)); CKF(Hputelement(fid, 3000, ref, dbuf, n)); if (nplain < 64) plain_refs[nplain++] = ref; hk_stat("op_plain", 1); } break;
        case 2: { /* reserved longer than written */
            int n = (int)hk_range(10, 400), w = (int)hk_range(1, n); int32 aid = Hstartwrite(fid, 3001, ref, n);
            if (aid == FAIL) { api_fail++; break; } fill_data(w, 2); CKF(Hwrite(aid, w, dbuf)); CKF(Hendaccess(aid)); hk_stat("op_reserved", 1); } break;
        case 3: case 4: { /* linked-block element, possibly with holes */
            int bl = (int)hk_range(4, 64), nb = (int)hk_range(1, 4); int32 aid = HLcreate(fid, 3002, ref, bl, nb);
            if (aid == FAIL) { api_fail++; break; }
            int nw = (int)hk_range(1, 4);
            for (int w = 0; w < nw; w++) {
                if (hk_chance(15)) CKF(Hseek(aid, (int32)hk_range(0, 6 * bl), DF_START));
                int n = (int)hk_range(1, 5 * bl); fill_data(n, (int)hk_range(0, 2)); CKF(Hwrite(aid, n, dbuf));
            }
            CKF(Hendaccess(aid)); hk_stat("op_linked", 1); } break;
        case 5: { /* convert an existing plain element */
            if (!nplain) break; int i = (int)hk_range(0, nplain - 1); uint16 r = plain_refs[i]; plain_refs[i] = plain_refs[--nplain];
            int32 aid = HLcreate(fid, 3000, r, (int32)hk_range(8, 48), (int32)hk_range(1, 3));
            if (aid == FAIL) { api_fail++; break; }
            CKF(Hseek(aid, 0, DF_END)); int n = (int)hk_range(1, 120); fill_data(n, 0); CKF(Hwrite(aid, n, dbuf)); CKF(Hendaccess(aid)); hk_stat("op_convert", 1); } break;
        case 6: { /* appendable element that is not last in the file when appended to: promotion */
            int n = (int)hk_range(1, 200); fill_data(n, 2);
            int32 aid = Hstartaccess(fid, 3003, ref, DFACC_RDWR | DFACC_APPENDABLE); if (aid == FAIL) { api_fail++; break; }
            CKF(Hwrite(aid, n, dbuf));
            if (hk_chance(70)) { uint16 r2 = next_ref++; fill_data(20, 0); CKF(Hputelement(fid, 3000, r2, dbuf, 20)); if (nplain < 64) plain_refs[nplain++] = r2; }
            int m = (int)hk_range(1, 300); fill_data(m, 1); CKF(Hwrite(aid, m, dbuf)); CKF(Hendaccess(aid)); hk_stat("op_append", 1); } break;
        case 7: { /* external element */
            if (next_i >= 8) break;
            int32 aid = HXcreate(fid, 3004, ref, ext_name[next_i], (int32)hk_range(0, 40), 0); if (aid == FAIL) { api_fail++; break; }
            next_i++; int n = (int)hk_range(1, 300); fill_data(n, 0); CKF(Hwrite(aid, n, dbuf)); CKF(Hendaccess(aid)); hk_stat("op_ext", 1); } break;
        case 8: case 9: { /* compressed element */
            comp_info ci; model_info mi; memset(&ci, 0, sizeof ci); memset(&mi, 0, sizeof mi);
            static const comp_coder_t cs[] = {COMP_CODE_NONE, COMP_CODE_RLE, COMP_CODE_RLE, COMP_CODE_SKPHUFF, COMP_CODE_DEFLATE, COMP_CODE_NBIT};
            comp_coder_t c = HK_PICK(cs);
            if (c == COMP_CODE_SKPHUFF) ci.skphuff.skp_size = (int)hk_range(1, 4);
            if (c == COMP_CODE_DEFLATE) ci.deflate.level = (int)hk_range(0, 9);
            if (c == COMP_CODE_NBIT) { ci.nbit.nt = DFNT_UINT8; ci.nbit.sign_ext = 0; ci.nbit.fill_one = 0; ci.nbit.start_bit = 6; ci.nbit.bit_len = 5; }
            int32 aid = HCcreate(fid, 3005, ref, COMP_MODEL_STDIO, &mi, c, &ci); if (aid == FAIL) { api_fail++; break; }
            int nw = hk_chance(25) ? 0 : (int)hk_range(1, 3);
            for (int w = 0; w < nw; w++) {
                int n = (int)hk_range(1, hk_chance(10) ? 9000 : 600); fill_data(n, hk_chance(60) ? 1 : (int)hk_range(0, 2)); CKF(Hwrite(aid, n, dbuf));
                if (w + 1 < nw && hk_chance(50)) { uint16 r2 = next_ref++; fill_data(10, 0); CKF(Hputelement(fid, 3000, r2, dbuf, 10)); if (nplain < 64) plain_refs[nplain++] = r2; }
            }
            CKF(Hendaccess(aid)); hk_stat("op_comp", 1); } break;
        case 10: case 11: { /* chunked element */
            HCHUNK_DEF c; DIM_DEF pd[3]; comp_info ci; model_info mi; memset(&c, 0, sizeof c); memset(&ci, 0, sizeof ci); memset(&mi, 0, sizeof mi);
            int rank = (int)hk_range(1, 3), nt = (int)HK_PICK(((int[]){1, 2, 4})); long chunk_elems = 1, total = 1;
            for (int d = 0; d < rank; d++) { pd[d].dim_length = (int32)hk_range(1, 7); pd[d].chunk_length = (int32)hk_range(1, pd[d].dim_length); pd[d].distrib_type = 1; chunk_elems *= pd[d].chunk_length; total *= pd[d].dim_length; }
            c.num_dims = rank; c.nt_size = nt; c.chunk_size = (int32)chunk_elems; c.pdims = pd; c.comp_type = COMP_CODE_NONE; c.model_type = COMP_MODEL_STDIO;
            if (hk_chance(40)) { c.chunk_flag = SPECIAL_COMP; c.comp_type = hk_chance(50) ? COMP_CODE_RLE : COMP_CODE_DEFLATE; ci.deflate.level = 6; c.cinfo = &ci; c.minfo = &mi; }
            uint8 fv[4]; for (int i = 0; i < nt; i++) fv[i] = hk_byte();
            int32 aid = HMCcreate(fid, 3006, ref, 1, nt, fv, &c); if (aid == FAIL) { api_fail++; break; }
            if (hk_chance(60)) { fill_data((int)(total * nt), (int)hk_range(0, 2)); CKF(Hwrite(aid, (int32)(total * nt), dbuf)); }
            else { int nw = (int)hk_range(0, 3);
                   for (int w = 0; w < nw; w++) { int32 org[3]; for (int d = 0; d < rank; d++) org[d] = (int32)hk_range(0, (pd[d].dim_length + pd[d].chunk_length - 1) / pd[d].chunk_length - 1);
                       fill_data((int)(chunk_elems * nt), (int)hk_range(0, 2)); CKF(HMCwriteChunk(aid, org, dbuf)); } }
            CKF(Hendaccess(aid)); hk_stat("op_chunked", 1); } break;
        case 12: { if (!nplain) break; uint16 r = plain_refs[hk_range(0, nplain - 1)]; CKF(Hdupdd(fid, 3007, ref, 3000, r)); hk_stat("op_dupdd", 1); } break;
        case 13: { if (!nplain) break; int i = (int)hk_range(0, nplain - 1); if (pinned[plain_refs[i]]) break; CKF(Hdeldd(fid, 3000, plain_refs[i])); plain_refs[i] = plain_refs[--nplain]; hk_stat("op_deldd", 1); } break;
        case 14: { /* overwrite an existing plain element in place */
            if (!nplain) break; uint16 r = plain_refs[hk_range(0, nplain - 1)]; int32 len = Hlength(fid, 3000, r); if (len <= 0) break;
            int32 aid = Hstartwrite(fid, 3000, r, len); if (aid == FAIL) { api_fail++; break; } int n = (int)hk_range(1, len); fill_data(n, 0); CKF(Hwrite(aid, n, dbuf)); CKF(Hendaccess(aid)); hk_stat("op_overwrite", 1); } break;
        default: { if (hk_chance(50)) CKF(Hsync(fid)); else CKF(Hcache(fid, hk_chance(50))); } break;
        }
    }
}

static void v_ops(int32 fid, int nops)
{
    CKF(Vstart(fid));
    for (int op = 0; op < nops; op++) {
        int kind = (int)hk_range(0, 6);
        switch (kind) {
        case 0: case 1: case 2: { /* new vdata */
            int32 vs = VSattach(fid, -1, "w"); if (vs == FAIL) { api_fail++; break; }
            char nm[32]; snprintf(nm, sizeof nm, "vd%d", (int)hk_range(0, 999)); CKF(VSsetname(vs, nm)); if (hk_chance(70)) CKF(VSsetclass(vs, hk_chance(50) ? "c" : "a longer class name"));
            static const int32 nts[] = {DFNT_INT8, DFNT_UINT16, DFNT_INT32, DFNT_FLOAT32, DFNT_FLOAT64, DFNT_CHAR8};
            int nf = (int)hk_range(hk_chance(8) ? 0 : 1, 4); char fl[128] = ""; int recsz = 0;
            for (int f = 0; f < nf; f++) { char fn[16]; snprintf(fn, sizeof fn, "f%d", f); int32 nt = HK_PICK(nts); int ord = (int)hk_range(1, 3); CKF(VSfdefine(vs, fn, nt, ord)); strcat(fl, f ? "," : ""); strcat(fl, fn); recsz += DFKNTsize(nt | DFNT_NATIVE) * ord; }
            if (nf) { CKF(VSsetfields(vs, fl)); if (hk_chance(20)) CKF(VSsetinterlace(vs, NO_INTERLACE)); }
            int appendable = nf && hk_chance(30); if (appendable) CKF(VSappendable(vs, (int32)hk_range(1, 4)));
            int nrec = nf ? (int)hk_range(hk_chance(15) ? 0 : 1, 40) : 0;
            if (nrec) { fill_data(nrec * recsz, 2); CKF(VSwrite(vs, dbuf, nrec, FULL_INTERLACE)); }
            if (nf && hk_chance(40)) { int32 v = 7; CKF(VSsetattr(vs, _HDF_VDATA, "vattr", DFNT_INT32, 1, &v)); }
            if (nf && hk_chance(30)) { CKF(VSsetattr(vs, (int32)hk_range(0, nf - 1), "fattr", DFNT_CHAR8, 3, "abc")); }
            if (appendable && nrec && hk_chance(70)) { /* something else in between, then append: the data becomes linked blocks */
                uint16 r2 = next_ref++; fill_data(10, 0); CKF(Hputelement(fid, 3000, r2, dbuf, 10));
                int m = (int)hk_range(1, 30); fill_data(m * recsz, 1); CKF(VSseek(vs, nrec - 1)); CKF(VSread(vs, dbuf + 30000, 1, FULL_INTERLACE)); CKF(VSwrite(vs, dbuf, m, FULL_INTERLACE)); }
            int32 r = VSQueryref(vs); CKF(VSdetach(vs)); if (r != FAIL && nvs < 32) vs_refs[nvs++] = r; hk_stat("op_vdata", 1); } break;
        case 3: case 4: { /* new vgroup */
            int32 vg = Vattach(fid, -1, "w"); if (vg == FAIL) { api_fail++; break; }
            if (hk_chance(85)) { char nm[32]; snprintf(nm, sizeof nm, "vg%d", (int)hk_range(0, 999)); CKF(Vsetname(vg, nm)); } if (hk_chance(60)) CKF(Vsetclass(vg, "grp"));
            int nm = (int)hk_range(0, 5);
            for (int m = 0; m < nm; m++) {
                int w = (int)hk_range(0, 2);
                if (w == 0 && nvs) CKF(Vaddtagref(vg, DFTAG_VH, vs_refs[hk_range(0, nvs - 1)]));
                else if (w == 1 && nvg) CKF(Vaddtagref(vg, DFTAG_VG, vg_refs[hk_range(0, nvg - 1)]));
                else if (nplain) { uint16 pr = plain_refs[hk_range(0, nplain - 1)]; pinned[pr] = 1; CKF(Vaddtagref(vg, 3000, pr)); }
            }
            if (hk_chance(35)) { float32 f = 1.5f; CKF(Vsetattr(vg, "gattr", DFNT_FLOAT32, 1, &f)); }
            if (hk_chance(15)) { CKF(Vsetattr(vg, "gattr2", DFNT_CHAR8, 4, "wxyz")); }
            int32 r = VQueryref(vg); CKF(Vdetach(vg)); if (r != FAIL && nvg < 32) vg_refs[nvg++] = r; hk_stat("op_vgroup", 1); } break;
        case 5: { /* modify an existing vgroup */
            if (!nvg) break; int32 vg = Vattach(fid, vg_refs[hk_range(0, nvg - 1)], "w"); if (vg == FAIL) { api_fail++; break; }
            if (nvs && hk_chance(60)) CKF(Vaddtagref(vg, DFTAG_VH, vs_refs[hk_range(0, nvs - 1)])); if (hk_chance(40)) CKF(Vsetname(vg, "renamed")); if (hk_chance(30)) { int32 v = 3; CKF(Vsetattr(vg, "late", DFNT_INT32, 1, &v)); }
            CKF(Vdetach(vg)); hk_stat("op_vgmod", 1); } break;
        default: { /* append to an existing vdata */
            if (!nvs) break; int32 vs = VSattach(fid, vs_refs[hk_range(0, nvs - 1)], "w"); if (vs == FAIL) { api_fail++; break; }
            int32 n = 0, il = 0, sz = 0; char fl[600], nm[80]; if (VSinquire(vs, &n, &il, fl, &sz, nm) != FAIL && fl[0] && n > 0 && sz > 0 && sz < 200) {
                CKF(VSsetfields(vs, fl)); CKF(VSseek(vs, n - 1)); CKF(VSread(vs, dbuf + 30000, 1, FULL_INTERLACE)); int m = (int)hk_range(1, 20); fill_data(m * 200, 0); CKF(VSwrite(vs, dbuf, m, FULL_INTERLACE)); }
            CKF(VSdetach(vs)); hk_stat("op_vsappend", 1); } break;
        }
    }
    CKF(Vend(fid));
}

static void an_gr_ops(int32 fid)
{
    if (hk_chance(60)) {
        int32 an = ANstart(fid); if (an == FAIL) { api_fail++; return; }
        int na = (int)hk_range(1, 4);
        for (int i = 0; i < na; i++) {
            int y = (int)hk_range(0, 3); int32 a;
            if (y < 2) a = ANcreate(an, 3000, nplain ? plain_refs[hk_range(0, nplain - 1)] : 1, y == 0 ? AN_DATA_LABEL : AN_DATA_DESC); else a = ANcreatef(an, y == 2 ? AN_FILE_LABEL : AN_FILE_DESC);
            if (a == FAIL) { api_fail++; continue; }
            int n = (int)hk_range(1, 120); for (int j = 0; j < n; j++) dbuf[j] = (uint8)('a' + hk_range(0, 25)); CKF(ANwriteann(a, (char *)dbuf, n)); CKF(ANendaccess(a)); hk_stat("op_annot", 1);
        }
        CKF(ANend(an));
    }
    if (hk_chance(60)) {
        int32 gr = GRstart(fid); if (gr == FAIL) { api_fail++; return; }
        int ni = (int)hk_range(1, 3);
        for (int i = 0; i < ni; i++) {
            int32 dims[2] = {(int32)hk_range(1, 12), (int32)hk_range(1, 12)}, st[2] = {0, 0}; int nc = (int)hk_range(1, 4);
            static const int32 nts[] = {DFNT_UINT8, DFNT_UINT8, DFNT_INT16, DFNT_FLOAT32}; int32 nt = HK_PICK(nts);
            char nm[32]; snprintf(nm, sizeof nm, "img%d", (int)hk_range(0, 99));
            int32 ri = GRcreate(gr, nm, nc, nt, (int32)hk_range(0, 2), dims); if (ri == FAIL) { api_fail++; continue; }
            int comp = hk_chance(30);
            if (comp) { comp_info ci; memset(&ci, 0, sizeof ci); int d = hk_chance(50); ci.deflate.level = 5; CKF(GRsetcompress(ri, d ? COMP_CODE_DEFLATE : COMP_CODE_RLE, &ci)); }
            if (hk_chance(85)) { fill_data(dims[0] * dims[1] * nc * DFKNTsize(nt), 1); CKF(GRwriteimage(ri, st, NULL, dims, dbuf)); }
            if (hk_chance(40)) { int32 pal = GRgetlutid(ri, 0); if (pal != FAIL) { fill_data(768, 2); CKF(GRwritelut(pal, 3, DFNT_UINT8, MFGR_INTERLACE_PIXEL, 256, dbuf)); } }
            if (hk_chance(30)) { int16 v = 5; CKF(GRsetattr(ri, "iattr", DFNT_INT16, 1, &v)); }
            CKF(GRendaccess(ri)); hk_stat("op_image", 1);
        }
        if (hk_chance(25)) CKF(GRsetattr(gr, "gr_global", DFNT_CHAR8, 2, "ok"));
        CKF(GRend(gr));
    }
}

static int name_ctr;
/* an SD session changes what is already there: every unlimited data set gets its own number of new records (at the end, or
   after a gap that the library fills), an existing record is overwritten, a sub-box of a fixed-size data set is overwritten */
static void sd_modify(int32 sd)
{
    int32 nds = 0, nat = 0; if (SDfileinfo(sd, &nds, &nat) == FAIL) { api_fail++; return; }
    for (int32 k = 0; k < nds; k++) {
        int32 sds = SDselect(sd, k); if (sds == FAIL) { api_fail++; continue; }
        char nm[H4_MAX_NC_NAME + 1]; int32 rank, dims[H4_MAX_VAR_DIMS], nt, na;
        if (SDgetinfo(sds, nm, &rank, dims, &nt, &na) == FAIL || rank < 1 || rank > 3 || SDiscoordvar(sds)) { SDendaccess(sds); continue; }
        int sz = DFKNTsize(nt); HDF_CHUNK_DEF cd; int32 cfl = 0; comp_coder_t ct = COMP_CODE_NONE; comp_info ci;
        if (SDgetchunkinfo(sds, &cd, &cfl) == FAIL) cfl = HDF_NONE; if (SDgetcompinfo(sds, &ct, &ci) == FAIL) ct = COMP_CODE_NONE;
        long rec = 1; for (int d = 1; d < rank; d++) rec *= dims[d];
        if (SDisrecord(sds)) {
            int what = (int)hk_range(0, 9);   /* 0-4 append, 5 append after a gap, 6-7 overwrite a record, 8-9 leave alone */
            int32 s3[3] = {0, 0, 0}, c3[3] = {1, dims[1], dims[2]};
            if (what <= 5) { s3[0] = dims[0] + (what == 5 ? (int32)hk_range(1, 2) : 0); c3[0] = (int32)hk_range(1, 4); }
            else if (what <= 7 && dims[0] > 0) { s3[0] = (int32)hk_range(0, dims[0] - 1); c3[0] = 1; }
            else { SDendaccess(sds); continue; }
            if (rec * c3[0] * sz <= 60000) { fill_data((int)(rec * c3[0] * sz), (int)hk_range(0, 2)); CKF(SDwritedata(sds, s3, NULL, c3, dbuf)); hk_stat(what <= 5 ? "sds_rec_append" : "sds_rec_overwrite", 1); }
        }
        else if (cfl == HDF_NONE && ct == COMP_CODE_NONE && dims[0] > 0 && hk_chance(30)) {
            /* a data set without data gets all of it (a first write away from the origin in a later session fails under SD_NOFILL:
               known finding sd-valid-rejected:nofill-unsized of C03) */
            int32 s2[3], c2[3]; long t2 = 1; int empty = 0; if (SDcheckempty(sds, &empty) == FAIL) empty = 1;
            for (int d = 0; d < rank; d++) { s2[d] = empty ? 0 : (int32)hk_range(0, dims[d] - 1); c2[d] = empty ? dims[d] : (int32)hk_range(1, dims[d] - s2[d]); t2 *= c2[d]; }
            if (t2 * sz <= 60000) { fill_data((int)(t2 * sz), 0); CKF(SDwritedata(sds, s2, NULL, c2, dbuf)); hk_stat(empty ? "sds_late_first_write" : "sds_overwrite", 1); }
        }
        CKF(SDendaccess(sds));
    }
}

static void sd_ops(const char *path, int create)
{
    int32 sd = SDstart(path, create ? DFACC_CREATE : DFACC_RDWR); if (sd == FAIL) { api_fail++; snprintf(first_fail, sizeof first_fail, "SDstart"); return; }
    if (hk_chance(15)) CKF(SDsetfillmode(sd, SD_NOFILL));
    if (!create && hk_chance(75)) sd_modify(sd);
    int nds = (int)hk_range(create ? 1 : 0, 4);
    for (int i = 0; i < nds; i++) {
        int rank = (int)hk_range(1, 3); int32 dims[3], st[3] = {0, 0, 0}, ed[3]; long total = 1;
        static const int32 nts[] = {DFNT_INT8, DFNT_UINT8, DFNT_INT16, DFNT_INT32, DFNT_FLOAT32, DFNT_FLOAT64}; int32 nt = HK_PICK(nts); int sz = DFKNTsize(nt);
        int mode = (int)hk_range(0, 12);   /* 0-2 plain, 3 unlimited, 4-5 compressed, 6-7 chunked, 8 chunked+comp, 9 empty, 10-12 unlimited */
        if (mode >= 10) mode = 3;
        for (int d = 0; d < rank; d++) { dims[d] = ed[d] = (int32)hk_range(1, 8); }
        if (mode == 3) { dims[0] = SD_UNLIMITED; ed[0] = (int32)hk_range(1, 6); }
        for (int d = 0; d < rank; d++) total *= ed[d];
        char nm[32]; snprintf(nm, sizeof nm, "sds%d", name_ctr++);
        int32 sds = SDcreate(sd, nm, nt, rank, dims); if (sds == FAIL) { api_fail++; continue; }
        if (mode == 4 || mode == 5) { comp_info ci; memset(&ci, 0, sizeof ci); static const comp_coder_t cs[] = {COMP_CODE_RLE, COMP_CODE_DEFLATE, COMP_CODE_SKPHUFF, COMP_CODE_NONE}; comp_coder_t c = HK_PICK(cs);
            ci.deflate.level = 4; if (c == COMP_CODE_SKPHUFF) ci.skphuff.skp_size = sz; CKF(SDsetcompress(sds, c, &ci)); }
        if (mode >= 6 && mode <= 8) { HDF_CHUNK_DEF c; memset(&c, 0, sizeof c); int32 fl = HDF_CHUNK;
            if (mode == 8) { fl |= HDF_COMP; for (int d = 0; d < rank; d++) c.comp.chunk_lengths[d] = (int32)hk_range(1, dims[d]); c.comp.comp_type = hk_chance(50) ? COMP_CODE_DEFLATE : COMP_CODE_RLE; c.comp.cinfo.deflate.level = 2; }
            else for (int d = 0; d < rank; d++) c.chunk_lengths[d] = (int32)hk_range(1, dims[d]);
            CKF(SDsetchunk(sds, c, fl)); if (hk_chance(50)) { double fv = 3.0; uint8 fb[8]; memset(fb, 0x11, 8); (void)fv; CKF(SDsetfillvalue(sds, fb)); } }
        if (mode != 9) {
            if (mode >= 6 && mode <= 8 && hk_chance(40)) { /* partial write: a sub-box */
                int32 s2[3], c2[3]; long t2 = 1; for (int d = 0; d < rank; d++) { s2[d] = (int32)hk_range(0, ed[d] - 1); c2[d] = (int32)hk_range(1, ed[d] - s2[d]); t2 *= c2[d]; }
                fill_data((int)(t2 * sz), 2); CKF(SDwritedata(sds, s2, NULL, c2, dbuf)); }
            else { fill_data((int)(total * sz), hk_chance(50) ? 1 : 2); CKF(SDwritedata(sds, st, NULL, ed, dbuf)); }
            if (mode == 3 && hk_chance(60)) { /* another data set first, then more records: the unlimited variable grows in linked blocks */
                int32 od = 5, os = 0; char bn[32]; snprintf(bn, sizeof bn, "between%d", name_ctr++); int32 o = SDcreate(sd, bn, DFNT_UINT8, 1, &od); if (o != FAIL) { CKF(SDwritedata(o, &os, NULL, &od, dbuf)); CKF(SDendaccess(o)); }
                int32 s3[3] = {ed[0], 0, 0}, c3[3] = {(int32)hk_range(1, 4), ed[1], ed[2]}; long t3 = c3[0]; for (int d = 1; d < rank; d++) t3 *= ed[d];
                fill_data((int)(t3 * sz), 0); CKF(SDwritedata(sds, s3, NULL, c3, dbuf)); }
        }
        if (hk_chance(50)) { int32 v[2] = {1, 2}; CKF(SDsetattr(sds, "units", DFNT_INT32, 2, v)); }
        if (hk_chance(30)) { int32 dim = SDgetdimid(sds, rank - 1); if (dim != FAIL) { char dn[32]; snprintf(dn, sizeof dn, "dim%d", name_ctr++); CKF(SDsetdimname(dim, dn));
            if (hk_chance(50) && ed[rank - 1] > 0) { int32 sc[8]; for (int j = 0; j < 8; j++) sc[j] = j * 10; CKF(SDsetdimscale(dim, ed[rank - 1], DFNT_INT32, sc)); } } }
        CKF(SDendaccess(sds)); hk_stat("op_sds", 1); hk_stat(mode <= 2 ? "sds_plain" : mode == 3 ? "sds_unlimited" : mode <= 5 ? "sds_comp" : mode <= 7 ? "sds_chunked" : mode == 8 ? "sds_chunkcomp" : "sds_empty", 1);
    }
    if (hk_chance(50)) CKF(SDsetattr(sd, "title", DFNT_CHAR8, 4, "test"));
    CKF(SDend(sd));
}

static void random_case(int k)
{
    char path[700]; snprintf(path, sizeof path, "%s", hk_tmp("")); snprintf(path + strlen(path), sizeof path - strlen(path), "r%d.hdf", k);
    unlink(path);
    for (int i = 0; i < 8; i++) { snprintf(ext_name[i], sizeof ext_name[i], "%s", hk_tmp("")); snprintf(ext_name[i] + strlen(ext_name[i]), sizeof ext_name[i] - strlen(ext_name[i]), "r%d_ext%d.dat", k, i); unlink(ext_name[i]); }
    next_ref = 1; nplain = nvs = nvg = next_i = 0; api_fail = 0; first_fail[0] = 0; memset(pinned, 0, sizeof pinned); name_ctr = 0;
    static const int nd[] = {4, 5, 16}; int ndds = HK_PICK(nd);
    int sd_heavy = (k % 4 == 0);   /* an SD session first and after every H session: record variables grow session by session */
    int nsess = (int)hk_range(sd_heavy ? 2 : 1, 3); int sd_first = sd_heavy || hk_chance(15);
    if (sd_heavy) hk_stat("sd_heavy_cases", 1);
    hk_stat(ndds == 4 ? "ndds4" : ndds == 5 ? "ndds5" : "ndds16", 1);
    char label[64];
    if (sd_first) { sd_ops(path, 1); snprintf(label, sizeof label, "r%d.sd0", k); check_file(path, label); }
    for (int s = 0; s < nsess; s++) {
        int32 fid = (s == 0 && !sd_first) ? Hopen(path, DFACC_CREATE, (int16)ndds) : Hopen(path, DFACC_RDWR, 0);
        if (fid == FAIL) { hk_fail("fmt-api", "Hopen session %d failed", s); return; }
        int cache = hk_chance(50); CKF(Hcache(fid, cache)); hk_stat(cache ? "cache_on" : "cache_off", 1);
        /* keep the ref space of the random elements clear of what V/SD/GR hand out: use high refs */
        next_ref = (uint16)(1000 * (s + 1) + 1);
        h_ops(fid, (int)hk_range(1, sd_heavy ? 4 : 10));
        if (hk_chance(sd_heavy ? 30 : 70)) v_ops(fid, (int)hk_range(1, 6));
        if (hk_chance(50)) h_ops(fid, (int)hk_range(1, 4));
        if (hk_chance(50)) an_gr_ops(fid);
        CKF(Hclose(fid));
        snprintf(label, sizeof label, "r%d.h%d", k, s); check_file(path, label);
        if (sd_heavy || hk_chance(35)) { sd_ops(path, 0); snprintf(label, sizeof label, "r%d.sd%d", k, s + 1); check_file(path, label); }
    }
    if (api_fail) { hk_fail("fmt-session-fails", "%d API calls failed while writing; first: %s", api_fail, first_fail); keep_files = 1; }
    hk_stat("random_cases", 1);
}

#include <sys/wait.h>
/* Hnumber on a file whose DD blocks hold an odd number of descriptors, in a child process
   (regression probe: HTIcount_dd read ddlist[ndds] before fix e99f658) */
static void probe_hnumber(void)
{
    char path[700]; snprintf(path, sizeof path, "%s", hk_tmp("odd.hdf")); unlink(path);
    uint8 b[8] = {1, 2, 3, 4, 5, 6, 7, 8};
    int32 fid = Hopen(path, DFACC_CREATE, 5); if (fid == FAIL) { hk_fail("fmt-api", "probe Hopen"); return; }
    for (int i = 1; i <= 7; i++) Hputelement(fid, (uint16)(3000 + (i & 1)), (uint16)i, b, 8);
    Hclose(fid);
    fflush(stdout);
    pid_t pid = fork();
    if (pid == 0) {
        int dn = open("/dev/null", O_WRONLY); if (dn >= 0) { dup2(dn, 2); close(dn); }
        int32 f = Hopen(path, DFACC_READ, 0); int32 n = Hnumber(f, 3000); Hclose(f);
        _exit(n == 3 ? 0 : 1);
    }
    int st = 0; waitpid(pid, &st, 0);
    if (WIFSIGNALED(st) || (WIFEXITED(st) && WEXITSTATUS(st) == 99))
        hk_fail("hnumber-odd-ndds-overread", "Hnumber(tag 3000) on a file with 5 descriptors per block: sanitizer report / crash in the child (HTIcount_dd reads ddlist[ndds])");
    else if (WIFEXITED(st) && WEXITSTATUS(st) == 1) hk_fail("hnumber-odd-ndds-overread", "Hnumber(tag 3000) on a file with 5 descriptors per block returned a wrong count");
    check_file(path, "probe.odd");
}

static void run_case(int k)
{
    char path[700], label[64];
    keep_files = 0;
    if (k < NWORKLOADS) {
        const workload_t *w = &WORKLOADS[k];
        snprintf(path, sizeof path, "%s", hk_tmp("")); snprintf(path + strlen(path), sizeof path - strlen(path), "w%d_%s.hdf", k, w->name);
        unlink(path);
        if (w->prep) { if (w->prep(path) == FAIL) { hk_fail("fmt-api", "prep of %s failed", w->name); return; } snprintf(label, sizeof label, "%s.prep", w->name); check_file(path, label); }
        int nf = w->run(path);
        if (nf) hk_fail("fmt-session-fails", "workload %s: %d API failures", w->name, nf);
        snprintf(label, sizeof label, "%s.run", w->name); check_file(path, label);
        hk_stat("workload_cases", 1);
    }
    else if (k == NWORKLOADS) probe_hnumber();
    else random_case(k);
    hk_stat("files", n_files); hk_stat("dd_lines", n_dd); hk_stat("special_lines", n_special); hk_stat("unknown_digests", n_unknown);
    hk_stat("datainfo_queries", n_queries); hk_stat("sd_raw_compares", n_rawcmp); n_rawcmp = 0; hk_stat("desc_compares", n_desc); n_desc = 0;
    n_files = n_dd = n_special = n_unknown = n_queries = 0;
    if (keep_files && !getenv("HK_KEEP")) { /* keep the evidence of a failing case next to the temp dir */
        char cmd[1600]; snprintf(cmd, sizeof cmd, "mkdir -p '%s/../fmt-failed' && cp '%s'/*%d* '%s/../fmt-failed/' 2>/dev/null", hk_tmpdir, hk_tmpdir, k, hk_tmpdir); if (system(cmd)) {} }
}

int main(int argc, char **argv) { return hk_main(argc, argv, "fmt"); }
