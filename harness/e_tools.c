/* e_tools - Tie-B engine for C19 (hdiff, hdp dump commands, hdfimport).
 *
 * Model ties (h4model engine `tools`):
 *   T tools adiff <type> <tl8> <pr8> <maxerr> <vals1> <vals2>  => <n_diff> <lines printed>
 *        the REAL array_diff of hdiff_array.c (compiled into this engine), stdout captured;
 *        integer types: stored values; floating-point types: values and limits in eighths, or nan (the engine stores a random
 *        NaN bit pattern: quiet / signalling, either sign, any payload) / inf / -inf / -0 (the float -0.0).
 *        array_diff is compiled from the tree under check (-I<REPO>), not from a fixed path.
 *   T tools hdiff <type> <tl8> <pr8> <maxerr> <vals1> <vals2>  => <exit status> <lines printed>
 *        the real hdiff BINARY on two files holding one dataset "d" each.
 *   T tools match <names1> <names2>                            => <name>/<in1><in2> ...
 *        object lists and match table as printed by `hdiff -b` on two generated files.
 *   T tools dumpcell <dims> <k>                                => coordinates of the k-th value printed by hdp dumpsds -d
 *   T tools import_shape <nplanes> <nrows> <ncols>             => shape of the SDS hdfimport creates | fail
 *   T tools import_run <to_float> <fmt>/<opt>/<np>/<nr>/<nc>,...  => fail | ok <type>:<shape> ...
 *        ONE hdfimport run with 1-4 input files of mixed formats / options (section G)
 * Implementation oracles (no model).  The generated files hold, among ordinary float32 / float64 values (SDS data, dimension scales,
 * fill values, attributes, vdata fields, images): NaN of several bit patterns, +-Inf, -0.0, denormals, +-FLT_MAX / DBL_MAX.
 * hdiff F F = 0, also under a random -t / -p (hdiff-not-reflexive); hdiff F G = hdiff G F = 0 for a second file written from the
 * same description (hdiff-equal-content-differs); single-point mutations F' (one element of one SDS / dimension scale / Vdata /
 * image, one SDS / dimension / image / vdata / vdata-field / vgroup / SD-file / GR-file attribute value, one added object)
 * => hdiff F F' and hdiff F' F exit 1 (hdiff-misses:<kind>); a floating-point element becomes another number, a NaN, +-Inf, +-0.0,
 * a denormal, +-MAX, or changes only its sign / payload: see the comment in oracle_mutations for what is demanded of each class
 * (hdiff-nan-difference-not-greater-than-limit, hdiff-asymmetric); the numbers printed by
 * hdp dumpsds / dumpvd / dumpgr -d equal what SDreaddata / VSread / GRreadimage return (one object per invocation, and several
 * datasets named in one -n list; a NaN must be printed as a NaN, an infinity as that infinity); hdiff -v <list> compares exactly
 * the listed datasets; hdfimport floating-point inputs with NaN / +-Inf / -0.0 / +-FLT_MAX / FLT_MIN / a denormal give exactly
 * these values; hdfimport output values equal
 * the numeric input (text and binary, ranks 2 and 3); in a run with several input files every SDS equals ITS input file
 * (shape, type, values, range, dimension scales) and the images equal those of the same files imported one by one.
 */
#include "toolgen.h"
#include <sys/wait.h>
#include <fcntl.h>
#include <libgen.h>
#include <math.h>
#include <limits.h>
#include <float.h>

#define main hdiff_array_unused_main
#include "mfhdf/hdiff/hdiff_array.c" /* resolved through -I<REPO>: the array_diff of the tree under check, not always /repo's */
#undef main

#ifndef REPO
#define REPO "/repo"
#endif
static char bindir[700];
static int  verbose;
static const char *run_cwd; /* when set: the tool runs with this working directory (hdfimport keeps its file names in char[32]) */

static int run_tool(const char *tool, char **args, int nargs, const char *log)
{
    char  exe[800];
    char *argv[64];
    int   i, st;
    pid_t pid;
    snprintf(exe, sizeof exe, "%s/bin/%s", bindir, tool);
    argv[0] = exe;
    for (i = 0; i < nargs && i < 60; i++) argv[i + 1] = args[i];
    argv[nargs + 1] = NULL;
    fflush(stdout);
    pid = fork();
    if (pid == 0) {
        int fd = open(log, O_WRONLY | O_CREAT | O_TRUNC, 0644);
        if (fd >= 0) { dup2(fd, 1); dup2(fd, 2); close(fd); }
        if (run_cwd && chdir(run_cwd) != 0) _exit(126);
        setenv("ASAN_OPTIONS", "detect_leaks=0:abort_on_error=0:exitcode=99", 1);
        setenv("UBSAN_OPTIONS", "print_stacktrace=1:exitcode=98", 1);
        execv(exe, argv);
        _exit(127);
    }
    if (waitpid(pid, &st, 0) < 0) return 2000;
    if (WIFSIGNALED(st)) return 1000 + WTERMSIG(st);
    return WEXITSTATUS(st);
}

static void crash_oracle(int rc, const char *log, const char *tool, const char *what)
{
    char  line[400], key[160], kind[64] = "", fn[64] = "";
    FILE *f = fopen(log, "r");
    if (f) {
        while (fgets(line, sizeof line, f)) {
            char *p;
            if (!kind[0] && (p = strstr(line, "ERROR: AddressSanitizer: "))) sscanf(p + 25, "%60s", kind);
            if (!kind[0] && (p = strstr(line, "runtime error: "))) snprintf(kind, sizeof kind, "ubsan");
            if (kind[0] && !fn[0] && (strstr(line, "/repo/") || strstr(line, REPO "/")) && (p = strstr(line, " in "))) sscanf(p + 4, "%60s", fn);
        }
        fclose(f);
    }
    if (kind[0]) snprintf(key, sizeof key, "sanitizer:%s:%s:%s", tool, kind, fn[0] ? fn : "?");
    else snprintf(key, sizeof key, "%s-crash:rc=%d", tool, rc);
    hk_fail(key, "%s", what);
}

/* ------------------------------------------------------------------------------------------- values */

typedef struct { const char *name; int32 nt; int bits; int sgn; int flt; } ty_t;
static const ty_t TYS[] = {
    {"i8", DFNT_INT8, 8, 1, 0}, {"u8", DFNT_UINT8, 8, 0, 0}, {"i16", DFNT_INT16, 16, 1, 0}, {"u16", DFNT_UINT16, 16, 0, 0},
    {"i32", DFNT_INT32, 32, 1, 0}, {"u32", DFNT_UINT32, 32, 0, 0}, {"f32", DFNT_FLOAT32, 32, 1, 1}, {"f64", DFNT_FLOAT64, 64, 1, 1}};
#define NTYS 8

/* the IEEE special values of the floating-point types, as the T line names them: nan (ANY NaN bit pattern - the engine stores a
   random one: quiet / signalling, either sign, any payload), inf, -inf, -0 (the float -0.0) */
#define SP_NAN   (LONG_MAX - 1)
#define SP_PINF  (LONG_MAX - 2)
#define SP_NINF  (LONG_MAX - 3)
#define SP_NZERO (LONG_MAX - 4)
#define IS_SP(v) ((v) >= SP_NZERO)
static long rnd_special(void)
{
    switch ((int)hk_range(0, 6)) {
        case 0: case 1: case 2: return SP_NAN;
        case 3: return SP_PINF;
        case 4: return SP_NINF;
        case 5: return SP_NZERO;
        default: return hk_chance(50) ? SP_PINF : SP_NAN;
    }
}

/* a random value of the type, as the integer the T line carries (floats: eighths) */
static long rnd_val(const ty_t *t, int rel)
{
    long lo, hi;
    if (t->flt && hk_chance(18)) return rnd_special();
    if (t->flt) { lo = -(1L << 14); hi = 1L << 14; }
    else if (t->bits == 8) { lo = t->sgn ? -128 : 0; hi = t->sgn ? 127 : 255; }
    else if (t->bits == 16) { lo = t->sgn ? -32768 : 0; hi = t->sgn ? 32767 : 65535; }
    else { lo = t->sgn ? -(1L << 31) : 0; hi = t->sgn ? (1L << 31) - 1 : (1L << 32) - 1; } /* i4_diff saturates (64e275a) */
    if (rel && t->bits > 16) { lo = t->sgn ? -(1L << 14) : 0; hi = 1L << 14; } /* PER: (double)(B - A) must not overflow, exact ratio */
    switch ((int)hk_range(0, 5)) {
        case 0: return lo;
        case 1: return hi;
        case 2: return 0 >= lo ? 0 : lo;
        case 3: return hk_range(lo, hi);
        default: { long v = hk_range(-20, 20); return v < lo ? lo : v > hi ? hi : v; }
    }
}
static long near_val(const ty_t *t, long a, int rel)
{
    long lo, hi, v;
    if (t->flt) { lo = -(1L << 14); hi = 1L << 14; }
    else if (t->bits == 8) { lo = t->sgn ? -128 : 0; hi = t->sgn ? 127 : 255; }
    else if (t->bits == 16) { lo = t->sgn ? -32768 : 0; hi = t->sgn ? 32767 : 65535; }
    else { lo = t->sgn ? -(1L << 31) : 0; hi = t->sgn ? (1L << 31) - 1 : (1L << 32) - 1; }
    if (rel && t->bits > 16) { lo = t->sgn ? -(1L << 14) : 0; hi = 1L << 14; }
    if (t->flt && IS_SP(a)) return hk_chance(55) ? a : hk_chance(50) ? rnd_special() : rnd_val(t, rel); /* NaN vs NaN: two bit patterns, as a rule */
    if (t->flt && hk_chance(8)) return rnd_special();
    switch ((int)hk_range(0, 6)) {
        case 0: case 1: return a;
        case 2: v = a + hk_range(-3, 3); break;
        case 3: v = a + (hk_chance(50) ? 1 : -1) * hk_range(120, 140); break;      /* around the int8 wrap of the difference */
        case 4: v = a + (hk_chance(50) ? 1 : -1) * hk_range(32760, 32775); break;  /* around the int16 wrap */
        case 5: v = a * 2; break;
        default: return rnd_val(t, rel);
    }
    return v < lo ? lo : v > hi ? hi : v;
}
static void put_special(const ty_t *t, void *buf, int i, long v)
{
    uint32_t u4; uint64_t u8;
    if (v == SP_NAN) {
        /* exponent all ones, mantissa not 0: quiet or signalling, any payload, either sign */
        uint32_t man = (uint32_t)hk_range(1, 0x7fffff);
        if (hk_chance(40)) man |= 0x400000;
        if (hk_chance(25)) man = hk_chance(50) ? 0x400000 : 1;
        u4 = 0x7f800000u | man | (hk_chance(30) ? 0x80000000u : 0);
        u8 = 0x7ff0000000000000ull | ((uint64_t)man << 29) | (hk_chance(50) ? (uint64_t)hk_range(0, 0x1fffffff) : 0) | (hk_chance(30) ? 0x8000000000000000ull : 0);
    }
    else if (v == SP_PINF) { u4 = 0x7f800000u; u8 = 0x7ff0000000000000ull; }
    else if (v == SP_NINF) { u4 = 0xff800000u; u8 = 0xfff0000000000000ull; }
    else { u4 = 0x80000000u; u8 = 0x8000000000000000ull; }
    if (t->nt == DFNT_FLOAT32) memcpy((float32 *)buf + i, &u4, 4); else memcpy((float64 *)buf + i, &u8, 8);
}

static void put_val(const ty_t *t, void *buf, int i, long v)
{
    if (t->flt && IS_SP(v)) { put_special(t, buf, i, v); return; }
    switch (t->nt) {
        case DFNT_INT8: ((int8 *)buf)[i] = (int8)v; break;
        case DFNT_UINT8: ((uint8 *)buf)[i] = (uint8)v; break;
        case DFNT_INT16: ((int16 *)buf)[i] = (int16)v; break;
        case DFNT_UINT16: ((uint16 *)buf)[i] = (uint16)v; break;
        case DFNT_INT32: ((int32 *)buf)[i] = (int32)v; break;
        case DFNT_UINT32: ((uint32 *)buf)[i] = (uint32)v; break;
        case DFNT_FLOAT32: ((float32 *)buf)[i] = (float32)v / 8.0f; break;
        case DFNT_FLOAT64: ((float64 *)buf)[i] = (float64)v / 8.0; break;
    }
}

typedef struct { int tl8, pr8; long maxerr; int has_e; } dopt_t;
static void rnd_opts(dopt_t *o, int n)
{
    static const int TL[] = {0, 0, 4, 8, 12, 16, 20, 24, 40, 128, 1016, 1024, 1032, 262136};
    static const int PR[] = {1, 2, 4, 8, 12, 16, 80};
    int m = (int)hk_range(0, 9);
    o->tl8 = o->pr8 = 0; o->has_e = 0; o->maxerr = n;
    if (m >= 5 && m <= 7) o->tl8 = HK_PICK(TL);
    if (m >= 7) o->pr8 = HK_PICK(PR);
    if (hk_chance(35)) { o->has_e = 1; o->maxerr = hk_chance(50) ? hk_range(0, 3) : hk_range(0, n + 2); }
}

static void print_vals(const long *v, int n)
{
    int i;
    if (n == 0) { printf("-"); return; }
    for (i = 0; i < n; i++) {
        if (i) printf(",");
        if (v[i] == SP_NAN) printf("nan"); else if (v[i] == SP_PINF) printf("inf"); else if (v[i] == SP_NINF) printf("-inf");
        else if (v[i] == SP_NZERO) printf("-0"); else printf("%ld", v[i]);
    }
}

static int count_pos_lines(const char *path)
{
    char  line[600];
    FILE *f = fopen(path, "r");
    int   n = 0;
    if (!f) return -1;
    while (fgets(line, sizeof line, f)) if (line[0] == '[' && line[1] == ' ') n++;
    fclose(f);
    return n;
}

/* ------------------------------------------------------------------------------------------- A: array_diff in process */

static void tie_adiff(int k)
{
    const ty_t *t = &TYS[hk_range(0, NTYS - 1)];
    int    n = (int)hk_range(1, 10), i, saved, fd, printed;
    long   v1[16], v2[16];
    double b1[16], b2[16]; /* aligned storage for any type */
    dopt_t o;
    int32  dims[1];
    uint32 nd;
    char   cap[700];
    rnd_opts(&o, n);
    for (i = 0; i < n; i++) { v1[i] = rnd_val(t, o.pr8 != 0); v2[i] = near_val(t, v1[i], o.pr8 != 0); put_val(t, b1, i, v1[i]); put_val(t, b2, i, v2[i]); }
    dims[0] = n;
    snprintf(cap, sizeof cap, "%s", hk_tmp("cap")); snprintf(cap + strlen(cap), 32, "_%d.txt", k);
    fflush(stdout);
    saved = dup(1); fd = open(cap, O_WRONLY | O_CREAT | O_TRUNC, 0644); dup2(fd, 1); close(fd);
    nd = array_diff(b1, b2, (uint32)n, "a", "b", 1, dims, t->nt, (float32)o.tl8 / 8.0f, (float32)o.pr8 / 8.0f, (uint32)o.maxerr, 0, NULL, NULL);
    fflush(stdout); dup2(saved, 1); close(saved);
    printed = count_pos_lines(cap);
    unlink(cap);
    printf("T tools adiff %s %d %d %ld ", t->name, o.tl8, o.pr8, o.maxerr); print_vals(v1, n); printf(" "); print_vals(v2, n);
    printf(" => %u %d\n", nd, printed);
}

/* ------------------------------------------------------------------------------------------- B: the hdiff binary */

static int write_one(const char *path, const ty_t *t, const long *v, int n)
{
    int32  sd = SDstart(path, DFACC_CREATE), id, dims[1], st[1] = {0};
    double buf[16];
    int    i;
    if (sd == FAIL) return -1;
    dims[0] = n;
    id = SDcreate(sd, "d", t->nt, 1, dims);
    for (i = 0; i < n; i++) put_val(t, buf, i, v[i]);
    if (SDwritedata(id, st, NULL, dims, buf) == FAIL) return -1;
    SDendaccess(id);
    return SDend(sd) == FAIL ? -1 : 0;
}

static void eighths(char *out, int v8) { sprintf(out, "%d.%03d", v8 / 8, (v8 % 8) * 125); }

static void tie_hdiff(int k)
{
    const ty_t *t = &TYS[hk_range(0, NTYS - 1)];
    int    n = (int)hk_range(1, 8), i, rc, na = 0;
    long   v1[16], v2[16];
    dopt_t o;
    char   f1[700], f2[700], log[700], a1[32], a2[32], a3[32];
    char  *av[12];
    rnd_opts(&o, n);
    for (i = 0; i < n; i++) { v1[i] = rnd_val(t, o.pr8 != 0); v2[i] = near_val(t, v1[i], o.pr8 != 0); }
    snprintf(f1, sizeof f1, "%s", hk_tmp("h1")); snprintf(f1 + strlen(f1), 32, "_%d.hdf", k);
    snprintf(f2, sizeof f2, "%s", hk_tmp("h2")); snprintf(f2 + strlen(f2), 32, "_%d.hdf", k);
    snprintf(log, sizeof log, "%s", hk_tmp("hl")); snprintf(log + strlen(log), 32, "_%d.txt", k);
    if (write_one(f1, t, v1, n) || write_one(f2, t, v2, n)) { hk_fail("generator", "write_one failed"); return; }
    if (o.tl8) { eighths(a1, o.tl8); av[na++] = "-t"; av[na++] = a1; }
    if (o.pr8) { eighths(a2, o.pr8); av[na++] = "-p"; av[na++] = a2; }
    if (o.has_e) { sprintf(a3, "%ld", o.maxerr); av[na++] = "-e"; av[na++] = a3; }
    av[na++] = f1; av[na++] = f2;
    rc = run_tool("hdiff", av, na, log);
    if (rc >= 98 && rc != 255) { crash_oracle(rc, log, "hdiff", "hdiff on two one-dataset files"); }
    else {
        printf("T tools hdiff %s %d %d %ld ", t->name, o.tl8, o.pr8, o.maxerr); print_vals(v1, n); printf(" "); print_vals(v2, n);
        printf(" => %d %d\n", rc, count_pos_lines(log));
    }
    if (!getenv("HK_KEEP")) { unlink(f1); unlink(f2); unlink(log); }
}

/* ------------------------------------------------------------------------------------------- C: match table */

static int parse_b_output(const char *log, char l1[][120], int *n1, char l2[][120], int *n2, char mt[][140], int *nm)
{
    char  line[600];
    FILE *f = fopen(log, "r");
    int   sect = 0; /* 1 file1 list, 2 file2 list, 3 match table */
    *n1 = *n2 = *nm = 0;
    if (!f) return -1;
    while (fgets(line, sizeof line, f)) {
        size_t len = strlen(line);
        while (len && (line[len - 1] == '\n' || line[len - 1] == ' ')) line[--len] = 0;
        if (strncmp(line, "file 1 ", 7) == 0) { sect = 1; continue; }
        if (strncmp(line, "file 2 ", 7) == 0) { sect = 2; continue; }
        if (strncmp(line, "file1     file2", 15) == 0) { sect = 3; continue; }
        if (line[0] == '-') continue;
        if (len == 0) { if (sect == 3) break; continue; }
        if ((sect == 1 || sect == 2) && len > 23) {
            if (sect == 1 && *n1 < 60) snprintf(l1[(*n1)++], 120, "%s", line + 23);
            if (sect == 2 && *n2 < 60) snprintf(l2[(*n2)++], 120, "%s", line + 23);
        }
        else if (sect == 3 && len > 16 && *nm < 120) {
            snprintf(mt[(*nm)++], 140, "%c%c%s", line[4] == 'x' ? '1' : '0', line[11] == 'x' ? '1' : '0', line + 16);
        }
    }
    fclose(f);
    return 0;
}

static void hexs(const char *s) { hk_hex(s, strlen(s)); }

static void tie_match(const char *fa, const char *fb, const char *log)
{
    static char l1[60][120], l2[60][120], mt[120][140];
    int   n1, n2, nm, i, rc;
    char *av[4];
    av[0] = "-b"; av[1] = (char *)fa; av[2] = (char *)fb;
    rc = run_tool("hdiff", av, 3, log);
    if (rc >= 98 && rc != 255) { crash_oracle(rc, log, "hdiff", "hdiff -b"); return; }
    if (parse_b_output(log, l1, &n1, l2, &n2, mt, &nm)) return;
    printf("T tools match ");
    if (!n1) printf("-"); for (i = 0; i < n1; i++) { if (i) printf(","); hexs(l1[i]); }
    printf(" ");
    if (!n2) printf("-"); for (i = 0; i < n2; i++) { if (i) printf(","); hexs(l2[i]); }
    printf(" =>");
    if (!nm) printf(" -");
    for (i = 0; i < nm; i++) { printf(" "); hexs(mt[i] + 2); printf("/%c%c", mt[i][0], mt[i][1]); }
    printf("\n");
}

/* ------------------------------------------------------------------------------------------- D: mutations */

static int copy_file(const char *a, const char *b)
{
    char  buf[65536]; size_t n;
    FILE *fa = fopen(a, "rb"), *fb = fopen(b, "wb");
    if (!fa || !fb) { if (fa) fclose(fa); if (fb) fclose(fb); return -1; }
    while ((n = fread(buf, 1, sizeof buf, fa)) > 0) fwrite(buf, 1, n, fb);
    fclose(fa); fclose(fb);
    return 0;
}

static char mut_sds[TG_NAME + 8]; /* name of the SDS the last "sds-element" mutation changed */

/* relation between the old and the new value of a changed element */
enum { MC_DIFFERENT, /* two different values (numbers or infinities), or bits compared as bits: must be reported */
       MC_NAN,       /* a NaN on exactly one side: must be reported (array_diff as it is does not: known finding) */
       MC_SAMEVALUE  /* other bits, same value: 0.0 <-> -0.0, a NaN <-> a NaN of another payload / sign: see oracle_mutations */ };
static int  mut_class;
static char mut_how[96];

static int flt_is_special(int32 nt, const void *p)
{
    if (nt == DFNT_FLOAT32) { float32 x; memcpy(&x, p, 4); return !isfinite(x) || x == 0 || fabsf(x) < FLT_MIN || fabsf(x) == FLT_MAX; }
    else { float64 x; memcpy(&x, p, 8); return !isfinite(x) || x == 0 || fabs(x) < DBL_MIN || fabs(x) == DBL_MAX; }
}

/* index of the element to change: more often than not one that holds a special value, when there is one */
static long pick_index(int32 nt, const void *buf, long n, int stride)
{
    long cand[64], k; int nc = 0, esz = tg_ntsize(nt);
    if ((nt == DFNT_FLOAT32 || nt == DFNT_FLOAT64) && hk_chance(60))
        for (k = 0; k < n && nc < 64; k += stride)
            if (flt_is_special(nt, (const uint8 *)buf + k * esz)) cand[nc++] = k;
    if (nc) return cand[hk_range(0, nc - 1)];
    return hk_range(0, n / stride - 1) * stride;
}

/* give the float32 / float64 element at v another bit pattern; sets mut_class / mut_how */
static void mut_float(void *v, int32 nt)
{
    int    f32 = nt == DFNT_FLOAT32, kind = (int)hk_range(0, 13);
    double o, n;
    uint64_t ob = 0, nb = 0;
    float32 o4, n4; float64 n8;
    if (f32) { memcpy(&o4, v, 4); memcpy(&ob, v, 4); o = o4; } else { memcpy(&o, v, 8); memcpy(&ob, v, 8); }
    switch (kind) {
        default: /* another number */
            if (!isfinite(o)) n = hk_chance(50) ? 1.0 : 0.0;
            else { n = f32 ? (double)(float32)((float32)o + 1.0f) : o + 1.0; if (n == o) n = o / 2; }
            break;
        case 4: case 5: n = NAN; break;                        /* the bit pattern follows below */
        case 6: n = INFINITY; break;
        case 7: n = -INFINITY; break;
        case 8: case 9: n = -o; break;                         /* the sign bit: 0.0 <-> -0.0, NaN <-> -NaN, Inf <-> -Inf, x <-> -x */
        case 10: n = hk_chance(50) ? 0.0 : -0.0; break;
        case 11: n = f32 ? (double)(FLT_MIN / 4) : DBL_MIN / 4; break;
        case 12: n = f32 ? (double)FLT_MAX : DBL_MAX; if (hk_chance(50)) n = -n; break;
        case 13: n = isnan(o) ? NAN : o; break;                /* a NaN stays a NaN (other payload); a number: its last mantissa bit */
    }
    if (f32) { n4 = (float32)n; memcpy(&nb, &n4, 4); } else { n8 = n; memcpy(&nb, &n8, 8); }
    if (kind == 8 || kind == 9) nb = ob ^ (f32 ? 0x80000000ull : 0x8000000000000000ull);
    if (kind == 13 && !isnan(o)) nb = ob ^ 1;
    if (isnan(n) && kind != 8 && kind != 9) {
        static const uint64_t M32[] = {0x7fc00000u, 0xffc00000u, 0x7f800001u, 0x7fc12345u, 0xffa00001u, 0x7fffffffu};
        static const uint64_t M64[] = {0x7ff8000000000000ull, 0xfff8000000000000ull, 0x7ff0000000000001ull, 0x7ff8000000012345ull, 0xfff4000000000001ull, 0x7fffffffffffffffull};
        int w = (int)hk_range(0, 5);
        nb = f32 ? M32[w] : M64[w];
        if (nb == ob) nb = f32 ? M32[(w + 1) % 6] : M64[(w + 1) % 6];
    }
    if (nb == ob) { float32 a = o == 1.0 ? 2.0f : 1.0f; float64 b = a; if (f32) memcpy(&nb, &a, 4); else memcpy(&nb, &b, 8); }
    memcpy(v, &nb, f32 ? 4 : 8);
    if (f32) { memcpy(&n4, v, 4); n = n4; } else memcpy(&n, v, 8);
    mut_class = (isnan(o) && isnan(n)) ? MC_SAMEVALUE : (isnan(o) || isnan(n)) ? MC_NAN : (o == n) ? MC_SAMEVALUE : MC_DIFFERENT;
    snprintf(mut_how, sizeof mut_how, "%.9g (bits %0*llx) -> %.9g (bits %0*llx)", o, f32 ? 8 : 16, (unsigned long long)ob, n, f32 ? 8 : 16, (unsigned long long)nb);
}

/* flip one value: returns a description, or NULL when this spec has no such object */
static const char *mutate(const char *path, tg_spec_t *s, int kind, char *desc, size_t cap)
{
    int i;
    mut_class = MC_DIFFERENT; mut_how[0] = 0;
    switch (kind) {
        case 0: { /* one element of one non-empty numeric SDS */
            int cand[TG_MAXSDS], nc = 0;
            for (i = 0; i < s->nsds; i++) if (!s->sds[i].empty && tg_nelem(s->sds[i].rank, s->sds[i].dims) > 0 && s->sds[i].lay.comp == 0 && !s->sds[i].lay.chunked) cand[nc++] = i;
            if (!nc) return NULL;
            if (hk_chance(60)) { /* a floating-point dataset, when there is one */
                int fc[TG_MAXSDS], nf = 0;
                for (i = 0; i < nc; i++) if (s->sds[cand[i]].nt == DFNT_FLOAT32 || s->sds[cand[i]].nt == DFNT_FLOAT64) fc[nf++] = cand[i];
                if (nf) { memcpy(cand, fc, sizeof(int) * (size_t)nf); nc = nf; }
            }
            {
                tg_sds_t *d = &s->sds[cand[hk_range(0, nc - 1)]];
                int32 sd = SDstart(path, DFACC_WRITE), id, st[TG_MAXRANK], ed[TG_MAXRANK], z[TG_MAXRANK] = {0};
                uint8 v[8] __attribute__((aligned(8)));
                long  nel = tg_nelem(d->rank, d->dims), at;
                void *all = calloc((size_t)nel + 1, 8);
                int   j;
                id = SDselect(sd, SDnametoindex(sd, d->name));
                SDreaddata(id, z, NULL, d->dims, all);
                at = pick_index(d->nt, all, nel, 1);
                free(all);
                for (j = d->rank - 1; j >= 0; j--) { st[j] = (int32)(at % d->dims[j]); at /= d->dims[j]; ed[j] = 1; }
                SDreaddata(id, st, NULL, ed, v);
                /* a change hdiff's own arithmetic can see: another value (floating-point types: see mut_float), +-1 on the low bit */
                switch (d->nt) {
                    case DFNT_FLOAT32: case DFNT_FLOAT64: mut_float(v, d->nt); break;
                    case DFNT_INT16: case DFNT_UINT16: *(uint16 *)v ^= 1; break;
                    case DFNT_INT32: case DFNT_UINT32: *(uint32 *)v ^= 1; break;
                    default: v[0] ^= 1; break;
                }
                SDwritedata(id, st, NULL, ed, v);
                SDendaccess(id); SDend(sd);
                snprintf(desc, cap, "one element of SDS %s (type %d) %s", d->name, (int)d->nt, mut_how);
                snprintf(mut_sds, sizeof mut_sds, "%s", d->name);
                return "sds-element";
            }
        }
        case 1: { /* one attribute value of an SDS */
            for (i = 0; i < s->nsds; i++) if (s->sds[i].nattr > 0) break;
            if (i == s->nsds) return NULL;
            {
                tg_sds_t *d = &s->sds[i];
                int32 sd = SDstart(path, DFACC_WRITE), id = SDselect(sd, SDnametoindex(sd, d->name));
                tg_attr_t a = d->attr[0];
                a.data[0] ^= 1;
                SDsetattr(id, a.name, a.nt, a.count, a.data);
                SDendaccess(id); SDend(sd);
                snprintf(desc, cap, "attribute %s of SDS %s", a.name, d->name);
                return "sds-attribute";
            }
        }
        case 2: { /* one new dataset */
            int32 sd = SDstart(path, DFACC_WRITE), dims[1] = {3}, st[1] = {0}, id;
            int32 v[3] = {1, 2, 3};
            id = SDcreate(sd, "zz_added", DFNT_INT32, 1, dims);
            SDwritedata(id, st, NULL, dims, v);
            SDendaccess(id); SDend(sd);
            snprintf(desc, cap, "added SDS zz_added");
            return "added-object";
        }
        case 3: { /* one record of a vdata */
            for (i = 0; i < s->nvs; i++) if (s->vs[i].nrec > 0) break;
            if (i == s->nvs) return NULL;
            {
                tg_vs_t *v = &s->vs[i];
                int32 f = Hopen(path, DFACC_WRITE, 0), id; uint8 rec[256] = {0};
                Vstart(f);
                id = VSattach(f, VSfind(f, v->name), "w");
                VSsetfields(id, v->fname[0]);
                VSseek(id, (int32)hk_range(0, v->nrec - 1));
                { int32 pos = VSseek(id, 0); (void)pos; }
                VSread(id, rec, 1, FULL_INTERLACE);
                rec[0] ^= 1;
                VSseek(id, 0);
                VSwrite(id, rec, 1, FULL_INTERLACE);
                VSdetach(id); Vend(f); Hclose(f);
                snprintf(desc, cap, "first field of record 0 of vdata %s (type %d)", v->name, (int)v->ftype[0]);
                return "vdata-element";
            }
        }
        case 4: { /* one pixel of an image */
            int cand[TG_MAXGR], nc = 0;
            for (i = 0; i < s->ngr; i++) if (s->gr[i].lay.comp == 0 && !s->gr[i].lay.chunked) cand[nc++] = i;
            if (!nc) return NULL;
            if (hk_chance(60)) {
                int fc[TG_MAXGR], nf = 0;
                for (i = 0; i < nc; i++) if (s->gr[cand[i]].nt == DFNT_FLOAT32 || s->gr[cand[i]].nt == DFNT_FLOAT64) fc[nf++] = cand[i];
                if (nf) { memcpy(cand, fc, sizeof(int) * (size_t)nf); nc = nf; }
            }
            {
                tg_gr_t *g = &s->gr[cand[hk_range(0, nc - 1)]];
                int32 f = Hopen(path, DFACC_WRITE, 0), gr = GRstart(f), id = GRselect(gr, GRnametoindex(gr, g->name));
                int32 st[2] = {0, 0}, ed[2] = {1, 1};
                uint8 px[64] __attribute__((aligned(8)));
                long  npx = (long)g->dims[0] * g->dims[1], at = hk_range(0, npx - 1);
                int   comp = 0;
                if ((g->nt == DFNT_FLOAT32 || g->nt == DFNT_FLOAT64) && g->il == MFGR_INTERLACE_PIXEL) {
                    /* pixel interlace: the buffer is [y][x][component]; any component of any pixel */
                    void *all = calloc((size_t)npx * g->ncomp + 1, 8);
                    GRreadimage(id, st, NULL, g->dims, all);
                    at = pick_index(g->nt, all, npx * g->ncomp, 1);
                    comp = (int)(at % g->ncomp); at /= g->ncomp;
                    free(all);
                }
                else if (g->nt == DFNT_FLOAT32 || g->nt == DFNT_FLOAT64) comp = (int)hk_range(0, g->ncomp - 1);
                st[0] = (int32)(at % g->dims[0]); st[1] = (int32)(at / g->dims[0]);
                GRreadimage(id, st, NULL, ed, px);
                switch (g->nt) {
                    case DFNT_FLOAT32: case DFNT_FLOAT64: mut_float(px + comp * tg_ntsize(g->nt), g->nt); break;
                    default: px[0] ^= 1; break;
                }
                GRwriteimage(id, st, NULL, ed, px);
                GRendaccess(id); GRend(gr); Hclose(f);
                snprintf(desc, cap, "one pixel of image %s (type %d, component %d of %d) %s", g->name, (int)g->nt, comp, (int)g->ncomp, mut_how);
                return "gr-element";
            }
        }
        case 5: { /* one value of a vdata-level attribute (VSsetattr, _HDF_VDATA) */
            for (i = 0; i < s->nvs; i++) if (s->vs[i].nattr > 0) break;
            if (i == s->nvs) return NULL;
            {
                tg_vs_t *v = &s->vs[i];
                int32 f = Hopen(path, DFACC_WRITE, 0), id; tg_attr_t a = v->attr[0];
                Vstart(f);
                id = VSattach(f, VSfind(f, v->name), "w");
                a.data[0] ^= 1;
                if (VSsetattr(id, _HDF_VDATA, a.name, a.nt, a.count, a.data) == FAIL) hk_fail("generator", "VSsetattr (mutation) failed");
                VSdetach(id); Vend(f); Hclose(f);
                snprintf(desc, cap, "vdata attribute %s of vdata %s (type %d)", a.name, v->name, (int)a.nt);
                return "vdata-attribute";
            }
        }
        case 6: { /* the attribute of one vdata field */
            int j = 0, found = 0;
            for (i = 0; i < s->nvs && !found; i++) for (j = 0; j < s->vs[i].nfld; j++) if (s->vs[i].fattr[j]) { found = 1; break; }
            if (!found) return NULL;
            i--;
            {
                tg_vs_t *v = &s->vs[i];
                int32 f = Hopen(path, DFACC_WRITE, 0), id, val = 2000 + j;
                Vstart(f);
                id = VSattach(f, VSfind(f, v->name), "w");
                if (VSsetattr(id, j, "fieldatt", DFNT_INT32, 1, &val) == FAIL) hk_fail("generator", "VSsetattr field (mutation) failed");
                VSdetach(id); Vend(f); Hclose(f);
                snprintf(desc, cap, "attribute fieldatt of field %d of vdata %s", j, v->name);
                return "vdata-field-attribute";
            }
        }
        case 7: { /* one value of a vgroup attribute */
            for (i = 0; i < s->nvg; i++) if (s->vg[i].nattr > 0) break;
            if (i == s->nvg) return NULL;
            {
                tg_vg_t *g = &s->vg[i];
                int32 f = Hopen(path, DFACC_WRITE, 0), id; tg_attr_t a = g->attr[0];
                Vstart(f);
                id = Vattach(f, Vfind(f, g->name), "w");
                a.data[0] ^= 1;
                if (Vsetattr(id, a.name, a.nt, a.count, a.data) == FAIL) hk_fail("generator", "Vsetattr (mutation) failed");
                Vdetach(id); Vend(f); Hclose(f);
                snprintf(desc, cap, "attribute %s of vgroup %s (type %d)", a.name, g->name, (int)a.nt);
                return "vgroup-attribute";
            }
        }
        case 8: { /* a dimension attribute of an SDS (SDsetdimstrs) */
            int j = 0, found = 0;
            for (i = 0; i < s->nsds && !found; i++) for (j = 0; j < s->sds[i].rank; j++) if (s->sds[i].dimattr[j]) { found = 1; break; }
            if (!found) return NULL;
            i--;
            {
                tg_sds_t *d = &s->sds[i];
                int32 sd = SDstart(path, DFACC_WRITE), id = SDselect(sd, SDnametoindex(sd, d->name)), dim = SDgetdimid(id, j);
                if (SDsetdimstrs(dim, "dlabeX", "dunit", "dformat") == FAIL) hk_fail("generator", "SDsetdimstrs (mutation) failed");
                SDendaccess(id); SDend(sd);
                snprintf(desc, cap, "label of dimension %d (%s) of SDS %s", j, d->dimname[j], d->name);
                return "sds-dim-attribute";
            }
        }
        case 9: { /* one value of an image attribute */
            for (i = 0; i < s->ngr; i++) if (s->gr[i].nattr > 0) break;
            if (i == s->ngr) return NULL;
            {
                tg_gr_t *g = &s->gr[i];
                int32 f = Hopen(path, DFACC_WRITE, 0), gr = GRstart(f), id = GRselect(gr, GRnametoindex(gr, g->name)); tg_attr_t a = g->attr[0];
                a.data[0] ^= 1;
                if (GRsetattr(id, a.name, a.nt, a.count, a.data) == FAIL) hk_fail("generator", "GRsetattr (mutation) failed");
                GRendaccess(id); GRend(gr); Hclose(f);
                snprintf(desc, cap, "attribute %s of image %s (type %d)", a.name, g->name, (int)a.nt);
                return "gr-attribute";
            }
        }
        case 10: { /* one value of an SD file attribute */
            if (s->nsdattr == 0) return NULL;
            {
                int32 sd = SDstart(path, DFACC_WRITE); tg_attr_t a = s->sdattr[0];
                a.data[0] ^= 1;
                if (SDsetattr(sd, a.name, a.nt, a.count, a.data) == FAIL) hk_fail("generator", "SDsetattr file (mutation) failed");
                SDend(sd);
                snprintf(desc, cap, "SD file attribute %s (type %d)", a.name, (int)a.nt);
                return "sd-file-attribute";
            }
        }
        case 11: { /* one value of a GR file attribute */
            if (s->ngrattr == 0) return NULL;
            {
                int32 f = Hopen(path, DFACC_WRITE, 0), gr = GRstart(f); tg_attr_t a = s->grattr[0];
                a.data[0] ^= 1;
                if (GRsetattr(gr, a.name, a.nt, a.count, a.data) == FAIL) hk_fail("generator", "GRsetattr file (mutation) failed");
                GRend(gr); Hclose(f);
                snprintf(desc, cap, "GR file attribute %s (type %d)", a.name, (int)a.nt);
                return "gr-file-attribute";
            }
        }
        case 12: { /* one value of a dimension scale */
            int j = 0, found = 0;
            for (i = 0; i < s->nsds && !found; i++) for (j = 0; j < s->sds[i].rank; j++) if (s->sds[i].dimscale[j]) { found = 1; break; }
            if (!found) return NULL;
            i--;
            {
                tg_sds_t *d = &s->sds[i];
                int32 sd = SDstart(path, DFACC_WRITE), id = SDselect(sd, SDnametoindex(sd, d->name)), dim = SDgetdimid(id, j), nt = d->dimscale[j];
                void *sc = calloc((size_t)d->dims[j] + 1, 8);
                long  at;
                int   esz = tg_ntsize(nt);
                if (SDgetdimscale(dim, sc) == FAIL) hk_fail("generator", "SDgetdimscale (mutation) failed");
                at = pick_index(nt, sc, d->dims[j], 1);
                switch (nt) {
                    case DFNT_FLOAT32: case DFNT_FLOAT64: mut_float((uint8 *)sc + at * esz, nt); break;
                    default: ((uint8 *)sc)[at * esz] ^= 1; break;
                }
                if (SDsetdimscale(dim, d->dims[j], nt, sc) == FAIL) hk_fail("generator", "SDsetdimscale (mutation) failed");
                free(sc);
                SDendaccess(id); SDend(sd);
                snprintf(desc, cap, "value %ld of the scale of dimension %d (%s, type %d) of SDS %s %s", at, j, d->dimname[j], (int)nt, d->name, mut_how);
                return "sds-dimscale-element";
            }
        }
    }
    return NULL;
}
#define NMUT 13

static void oracle_mutations(int k)
{
    static tg_spec_t spec;
    char   f[700], g[700], log[700], desc[200];
    char  *av[3];
    int    rc, kind;
    const char *what;
    snprintf(f, sizeof f, "%s", hk_tmp("m")); snprintf(f + strlen(f), 32, "_%d.hdf", k);
    snprintf(g, sizeof g, "%s", hk_tmp("n")); snprintf(g + strlen(g), 32, "_%d.hdf", k);
    snprintf(log, sizeof log, "%s", hk_tmp("ml")); snprintf(log + strlen(log), 32, "_%d.txt", k);
    /* no annotations / palettes: hdiff does not look at them.  Floating-point data, scales, fill values, attributes, vdata fields and
       images hold NaN (several bit patterns), +-Inf, -0.0, denormals, +-FLT_MAX / DBL_MAX among the ordinary values */
    tg_random(&spec, TG_F_VG | TG_F_VS | TG_F_GR | TG_F_DIMS | TG_F_LAYOUT | TG_F_SPECIAL);
    if (tg_write(f, &spec) != 0) { hk_fail("generator", "tg_write failed"); return; }
    /* reflexive: bit-identical content is equal content, whatever the values are and whatever tolerance is asked for */
    av[0] = f; av[1] = f;
    rc = run_tool("hdiff", av, 2, log);
    if (rc >= 98 && rc != 255) { crash_oracle(rc, log, "hdiff", "hdiff F F"); goto done; }
    if (rc != 0) hk_fail("hdiff-not-reflexive", "hdiff F F exits %d", rc);
    hk_stat("reflexive", 1);
    if (hk_chance(50)) {
        static const char *LIM[] = {"0.125", "0.5", "1", "2.5", "100"};
        char *bv[4];
        bv[0] = hk_chance(50) ? "-t" : "-p"; bv[1] = (char *)HK_PICK(LIM); bv[2] = f; bv[3] = f;
        rc = run_tool("hdiff", bv, 4, log);
        if (rc >= 98 && rc != 255) { crash_oracle(rc, log, "hdiff", "hdiff -t/-p F F"); goto done; }
        if (rc != 0) hk_fail("hdiff-not-reflexive", "hdiff %s %s F F exits %d", bv[0], bv[1], rc);
    }
    tie_match(f, f, log);
    /* equal content: the same description written a second time (the API returns bit-identical values for both files) */
    if (hk_chance(35)) {
        long nd;
        if (tg_write(g, &spec) != 0) { hk_fail("generator", "tg_write (second copy) failed"); goto done; }
        tg_report = 0; nd = tg_compare(f, g, TG_CMP_NOAN); tg_report = 1;
        if (nd != 0) hk_fail("generator", "two files written from one description differ through the API: %s", tg_first);
        else {
            int r1, r2;
            av[0] = f; av[1] = g; r1 = run_tool("hdiff", av, 2, log);
            if (r1 >= 98 && r1 != 255) { crash_oracle(r1, log, "hdiff", "hdiff F G (equal content)"); goto done; }
            av[0] = g; av[1] = f; r2 = run_tool("hdiff", av, 2, log);
            if (r2 >= 98 && r2 != 255) { crash_oracle(r2, log, "hdiff", "hdiff G F (equal content)"); goto done; }
            if (r1 != 0 || r2 != 0) hk_fail("hdiff-equal-content-differs", "hdiff F G = %d, hdiff G F = %d for two files the API reads bit-identical values from", r1, r2);
            hk_stat("equal_content", 1);
        }
        unlink(g);
    }
    /* a random kind; when the file has no such object, the next applicable kind */
    kind = (int)hk_range(0, NMUT - 1);
    if (hk_chance(40)) kind = hk_chance(60) ? 0 : hk_chance(50) ? 4 : 12; /* the data paths (array_diff) carry most of the logic */
    if (copy_file(f, g)) goto done;
    {
        int t;
        what = NULL;
        for (t = 0; t < NMUT && !what; t++) what = mutate(g, &spec, (kind + t) % NMUT, desc, sizeof desc);
    }
    if (!what) goto done;
    hk_stat(what, 1);
    {
        int r1, r2;
        av[0] = f; av[1] = g; r1 = run_tool("hdiff", av, 2, log);
        if (r1 >= 98 && r1 != 255) { crash_oracle(r1, log, "hdiff", desc); goto done; }
        av[0] = g; av[1] = f; r2 = run_tool("hdiff", av, 2, log);
        if (r2 >= 98 && r2 != 255) { crash_oracle(r2, log, "hdiff", desc); goto done; }
        /* What must be reported.  Attributes and vdata records are compared as bytes (memcmp): every changed bit pattern.  The
           elements of an SDS, a dimension scale or an image are compared BY VALUE (usage: "|a-b| > limit", limit 0):
             - two different values - numbers, +Inf, -Inf - differ;
             - a NaN and anything that is not a NaN differ (own key: array_diff tests `fabs(a-b) > limit`, false for a NaN);
             - same value under other bits (0.0 / -0.0: |a-b| = 0; a NaN under another payload or sign: no value at all, the
               tool prints both as "nan"): no verdict is demanded, but it must be the same in both orders. */
        if (mut_class == MC_SAMEVALUE) {
            if (r1 > 1 || r2 > 1) hk_fail("hdiff-status", "hdiff F F' = %d, hdiff F' F = %d after changing %s", r1, r2, desc);
            else if (r1 != r2) hk_fail("hdiff-asymmetric", "hdiff F F' = %d, hdiff F' F = %d after changing %s", r1, r2, desc);
            hk_stat(r1 ? "samevalue_change_reported" : "samevalue_change_not_reported", 1);
        }
        else if (mut_class == MC_NAN) {
            if (r1 > 1 || r2 > 1) hk_fail("hdiff-status", "hdiff F F' = %d, hdiff F' F = %d after changing %s", r1, r2, desc);
            else if (r1 != r2) hk_fail("hdiff-asymmetric", "hdiff F F' = %d, hdiff F' F = %d after changing %s", r1, r2, desc);
            else if (r1 != 1 && strcmp(what, "sds-dimscale-element") == 0) /* the scale of a used dimension is not compared at all, whatever its values */
                hk_fail("hdiff-misses:sds-dimscale-element", "hdiff F F' = %d, hdiff F' F = %d after changing %s", r1, r2, desc);
            else if (r1 != 1) hk_fail("hdiff-nan-difference-not-greater-than-limit", "hdiff F F' = %d, hdiff F' F = %d after changing %s", r1, r2, desc);
            hk_stat("nan_vs_number_change", 1);
        }
        else if (r1 != 1 || r2 != 1) {
            char key[80];
            snprintf(key, sizeof key, "hdiff-misses:%s", what);
            hk_fail(key, "hdiff F F' = %d, hdiff F' F = %d after changing %s", r1, r2, desc);
        }
        /* -v <name>,<name>,...: exactly the listed datasets are compared, whatever their number and order in the list */
        if (strcmp(what, "sds-element") == 0 && spec.nsds >= 2 && r1 == 1) {
            char  with[TG_MAXSDS * (TG_NAME + 1) + 8] = "", without[TG_MAXSDS * (TG_NAME + 1) + 8] = "";
            int   ord[TG_MAXSDS], i, rw, ro;
            char *bv[4];
            for (i = 0; i < spec.nsds; i++) ord[i] = i;
            for (i = spec.nsds - 1; i > 0; i--) { int x = (int)hk_range(0, i), t = ord[i]; ord[i] = ord[x]; ord[x] = t; }
            for (i = 0; i < spec.nsds; i++) {
                const char *nm = spec.sds[ord[i]].name;
                if (with[0]) strcat(with, ",");
                strcat(with, nm);
                if (strcmp(nm, mut_sds) != 0) { if (without[0]) strcat(without, ","); strcat(without, nm); }
            }
            bv[0] = "-v"; bv[1] = with; bv[2] = f; bv[3] = g;
            rw = run_tool("hdiff", bv, 4, log);
            if (rw >= 98 && rw != 255) { crash_oracle(rw, log, "hdiff", "hdiff -v list"); goto done; }
            bv[1] = without;
            ro = run_tool("hdiff", bv, 4, log);
            if (ro >= 98 && ro != 255) { crash_oracle(ro, log, "hdiff", "hdiff -v list"); goto done; }
            if (rw != 1) hk_fail("hdiff-v-list-misses", "hdiff -v %s exits %d after changing %s", with, rw, desc);
            if (ro != 0) hk_fail("hdiff-v-list-not-exact", "hdiff -v %s exits %d although only %s was changed", without, ro, desc);
            hk_stat("hdiff_v_list", 1);
        }
        tie_match(f, g, log);
    }
done:
    if (!getenv("HK_KEEP")) { unlink(f); unlink(g); unlink(log); }
}

/* ------------------------------------------------------------------------------------------- E: hdp dumps */

/* read all whitespace separated numeric tokens of a file */
static int read_numbers(const char *path, double *out, int cap, int *bad)
{
    FILE *f = fopen(path, "r");
    char  tok[512]; /* DBL_MAX in %f notation has 316 characters */
    int   n = 0;
    *bad = 0;
    if (!f) return -1;
    while (fscanf(f, "%500s", tok) == 1) {
        char *end;
        double v = strtod(tok, &end);
        if (*end) { (*bad)++; continue; }
        if (n < cap) out[n] = v;
        n++;
    }
    fclose(f);
    return n;
}

static double get_val(int32 nt, const void *buf, long i)
{
    switch (nt) {
        case DFNT_INT8: return ((const int8 *)buf)[i];
        case DFNT_UINT8: return ((const uint8 *)buf)[i];
        case DFNT_INT16: return ((const int16 *)buf)[i];
        case DFNT_UINT16: return ((const uint16 *)buf)[i];
        case DFNT_INT32: return ((const int32 *)buf)[i];
        case DFNT_UINT32: return ((const uint32 *)buf)[i];
        case DFNT_FLOAT32: return ((const float32 *)buf)[i];
        case DFNT_FLOAT64: return ((const float64 *)buf)[i];
    }
    return 0;
}

static int numeric_nt(int32 nt) { return nt != DFNT_CHAR8 && nt != DFNT_UCHAR8; }

/* does the printed number agree with the value the API returns?  A NaN must be printed as a NaN ("nan" / "-nan"), an infinity as
   the infinity of the same sign ("inf" / "-inf"); a number within the printed precision (%f: 6 decimals) */
static int printed_agrees(double got, double e, int flt)
{
    if (isnan(e) || isnan(got)) return isnan(e) && isnan(got);
    if (isinf(e) || isinf(got)) return got == e;
    return fabs(got - e) <= (flt ? 5e-7 * (1 + fabs(e)) : 0);
}

static void cmp_numbers(const char *key, const char *what, const double *got, int ngot, int32 nt, const void *buf, long n)
{
    long i;
    if (ngot != n) { hk_fail(key, "%s: %d values printed, %ld in the object", what, ngot, n); return; }
    for (i = 0; i < n; i++) {
        double e = get_val(nt, buf, i);
        if (!printed_agrees(got[i], e, nt == DFNT_FLOAT32 || nt == DFNT_FLOAT64)) { hk_fail(key, "%s: value %ld printed as %.9g, the API returns %.9g", what, i, got[i], e); return; }
    }
}

static void oracle_dumps(int k)
{
    static tg_spec_t spec;
    static double nums[70000];
    char   f[700], log[700], idx[16];
    char  *av[6];
    int    i, rc, bad, n;
    snprintf(f, sizeof f, "%s", hk_tmp("d")); snprintf(f + strlen(f), 32, "_%d.hdf", k);
    snprintf(log, sizeof log, "%s", hk_tmp("dl")); snprintf(log + strlen(log), 32, "_%d.txt", k);
    tg_random(&spec, TG_F_VG | TG_F_VS | TG_F_GR | TG_F_LAYOUT | TG_F_UNLIM | TG_F_SPECIAL);
    if (tg_write(f, &spec) != 0) { hk_fail("generator", "tg_write failed"); return; }
    /* datasets: by name */
    for (i = 0; i < spec.nsds; i++) {
        tg_sds_t *d = &spec.sds[i];
        long nel = tg_nelem(d->rank, d->dims);
        if (!numeric_nt(d->nt) || d->empty || nel == 0 || nel > 60000) continue;
        av[0] = "dumpsds"; av[1] = "-d"; av[2] = "-n"; av[3] = d->name; av[4] = f;
        rc = run_tool("hdp", av, 5, log);
        if (rc != 0) { if (rc >= 98) crash_oracle(rc, log, "hdp", "hdp dumpsds -d"); else hk_fail("hdp-dumpsds-fails", "hdp dumpsds -d -n %s exits %d", d->name, rc); continue; }
        n = read_numbers(log, nums, 70000, &bad);
        {
            int32 sd = SDstart(f, DFACC_READ), id = SDselect(sd, SDnametoindex(sd, d->name)), st[TG_MAXRANK] = {0};
            void *buf = calloc((size_t)nel + 1, 8);
            char  what[120];
            SDreaddata(id, st, NULL, d->dims, buf);
            snprintf(what, sizeof what, "dumpsds %s type %d rank %d", d->name, (int)d->nt, d->rank);
            if (bad) hk_fail("hdp-dumpsds-values", "%s: %d non-numeric tokens", what, bad);
            else cmp_numbers("hdp-dumpsds-values", what, nums, n, d->nt, buf, nel);
            free(buf); SDendaccess(id); SDend(sd);
            hk_stat("dumpsds", 1);
        }
    }
    /* several datasets in ONE invocation (-n a,b,c in any order): the values of every one of them, in file order */
    {
        char  list[TG_MAXSDS * (TG_NAME + 1) + 8] = "";
        int   pick[TG_MAXSDS], np = 0, j;
        long  total = 0;
        for (i = 0; i < spec.nsds; i++) {
            tg_sds_t *d = &spec.sds[i];
            long nel = tg_nelem(d->rank, d->dims);
            if (!numeric_nt(d->nt) || d->empty || nel == 0 || total + nel > 60000 || !hk_chance(70)) continue;
            pick[np++] = i; total += nel;
        }
        if (np >= 2) {
            int ord[TG_MAXSDS];
            for (j = 0; j < np; j++) ord[j] = pick[j];
            for (j = np - 1; j > 0; j--) { int x = (int)hk_range(0, j), t = ord[j]; ord[j] = ord[x]; ord[x] = t; }
            for (j = 0; j < np; j++) { if (j) strcat(list, ","); strcat(list, spec.sds[ord[j]].name); }
            av[0] = "dumpsds"; av[1] = "-d"; av[2] = "-n"; av[3] = list; av[4] = f;
            rc = run_tool("hdp", av, 5, log);
            if (rc != 0) { if (rc >= 98) crash_oracle(rc, log, "hdp", "hdp dumpsds -d -n a,b,.."); else hk_fail("hdp-dumpsds-fails", "hdp dumpsds -d -n %s exits %d", list, rc); }
            else {
                int32 sd = SDstart(f, DFACC_READ), idx[TG_MAXSDS];
                long  at = 0;
                n = read_numbers(log, nums, 70000, &bad);
                /* file order = order of the SDS indices */
                for (j = 0; j < np; j++) idx[j] = SDnametoindex(sd, spec.sds[pick[j]].name);
                for (j = 1; j < np; j++) { int a = j; while (a > 0 && idx[a - 1] > idx[a]) { int32 t = idx[a]; int t2 = pick[a]; idx[a] = idx[a - 1]; idx[a - 1] = t; pick[a] = pick[a - 1]; pick[a - 1] = t2; a--; } }
                if (bad || n != total) hk_fail("hdp-dumpsds-list", "dumpsds -d -n %s: %d values printed (%d non numeric), the datasets hold %ld", list, n, bad, total);
                else for (j = 0; j < np; j++) {
                    tg_sds_t *d = &spec.sds[pick[j]];
                    long  nel = tg_nelem(d->rank, d->dims);
                    int32 id = SDselect(sd, idx[j]), st[TG_MAXRANK] = {0};
                    void *buf = calloc((size_t)nel + 1, 8);
                    char  what[200];
                    SDreaddata(id, st, NULL, d->dims, buf);
                    snprintf(what, sizeof what, "dumpsds -n %s: dataset %s (type %d)", list, d->name, (int)d->nt);
                    cmp_numbers("hdp-dumpsds-list", what, nums + at, (int)nel, d->nt, buf, nel);
                    at += nel;
                    free(buf); SDendaccess(id);
                }
                SDend(sd);
                hk_stat("dumpsds_list", 1);
            }
        }
    }
    /* images */
    for (i = 0; i < spec.ngr; i++) {
        tg_gr_t *g = &spec.gr[i];
        long nel = (long)g->dims[0] * g->dims[1] * g->ncomp;
        if (!numeric_nt(g->nt) || nel > 60000) continue;
        av[0] = "dumpgr"; av[1] = "-d"; av[2] = "-n"; av[3] = g->name; av[4] = f;
        rc = run_tool("hdp", av, 5, log);
        if (rc != 0) { if (rc >= 98) crash_oracle(rc, log, "hdp", "hdp dumpgr -d"); else hk_fail("hdp-dumpgr-fails", "hdp dumpgr -d -n %s exits %d", g->name, rc); continue; }
        n = read_numbers(log, nums, 70000, &bad);
        {
            int32 fid = Hopen(f, DFACC_READ, 0), gr = GRstart(fid), id = GRselect(gr, GRnametoindex(gr, g->name)), st[2] = {0, 0};
            void *buf = calloc((size_t)nel + 1, 8);
            char  what[120];
            GRreadimage(id, st, NULL, g->dims, buf);
            snprintf(what, sizeof what, "dumpgr %s type %d ncomp %d il %d", g->name, (int)g->nt, (int)g->ncomp, (int)g->il);
            if (bad) hk_fail("hdp-dumpgr-values", "%s: %d non-numeric tokens", what, bad);
            else cmp_numbers("hdp-dumpgr-values", what, nums, n, g->nt, buf, nel);
            free(buf); GRendaccess(id); GRend(gr); Hclose(fid);
            hk_stat("dumpgr", 1);
        }
    }
    /* vdatas with numeric fields only */
    for (i = 0; i < spec.nvs; i++) {
        tg_vs_t *v = &spec.vs[i];
        int j, allnum = 1; long per = 0;
        for (j = 0; j < v->nfld; j++) { if (!numeric_nt(v->ftype[j])) allnum = 0; per += v->forder[j]; }
        /* NO_INTERLACE storage: what a read returns depends on the transfer sizes (C07 vs_no_read_correct_iff); hdp reads
           record by record, so it prints other values than one whole VSread: reported under its own key */
        const char *vkey = (v->il == FULL_INTERLACE) ? "hdp-dumpvd-values" : "hdp-dumpvd-no-interlace";
        if (!allnum || v->nrec == 0) continue;
        av[0] = "dumpvd"; av[1] = "-d"; av[2] = "-n"; av[3] = v->name; av[4] = f;
        rc = run_tool("hdp", av, 5, log);
        if (rc != 0) { if (rc >= 98) crash_oracle(rc, log, "hdp", "hdp dumpvd -d"); else hk_fail("hdp-dumpvd-fails", "hdp dumpvd -d -n %s exits %d", v->name, rc); continue; }
        n = read_numbers(log, nums, 70000, &bad);
        {
            int32 fid = Hopen(f, DFACC_READ, 0), id; char flist[400] = ""; uint8 *buf; long q = 0, r; int ok = 1;
            Vstart(fid);
            id = VSattach(fid, VSfind(fid, v->name), "r");
            for (j = 0; j < v->nfld; j++) { if (j) strcat(flist, ","); strcat(flist, v->fname[j]); }
            VSsetfields(id, flist);
            buf = calloc((size_t)VSsizeof(id, flist) * v->nrec + 8, 1);
            VSread(id, buf, v->nrec, FULL_INTERLACE);
            if (bad || n != per * v->nrec) { hk_fail(vkey, "dumpvd %s: %d values (%d non numeric) printed, %ld expected", v->name, n, bad, per * v->nrec); ok = 0; }
            {
                uint8 *p = buf;
                for (r = 0; ok && r < v->nrec; r++)
                    for (j = 0; ok && j < v->nfld; j++) {
                        int e, sz = tg_ntsize(v->ftype[j]);
                        for (e = 0; e < v->forder[j]; e++, q++, p += sz) {
                            uint8 tmp[8] __attribute__((aligned(8)));
                            double ex;
                            memcpy(tmp, p, (size_t)sz);
                            ex = get_val(v->ftype[j], tmp, 0);
                            if (!printed_agrees(nums[q], ex, 1)) { hk_fail(vkey, "dumpvd %s record %ld field %d[%d]: printed %.9g, VSread returns %.9g", v->name, r, j, e, nums[q], ex); ok = 0; break; }
                        }
                    }
            }
            free(buf); VSdetach(id); Vend(fid); Hclose(fid);
            hk_stat("dumpvd", 1);
        }
    }
    if (!getenv("HK_KEEP")) { unlink(f); unlink(log); }
}

/* dump order: dataset whose value encodes its coordinates */
static void tie_dumpcell(int k)
{
    char   f[700], log[700];
    char  *av[4];
    int    rank = (int)hk_range(1, 4), i, rc, bad, n;
    int32  dims[4], st[4] = {0}, sd, id;
    long   nel = 1, q;
    int32 *buf;
    static double nums[5000];
    for (i = 0; i < rank; i++) { dims[i] = (int32)hk_range(1, 6); nel *= dims[i]; }
    snprintf(f, sizeof f, "%s", hk_tmp("c")); snprintf(f + strlen(f), 32, "_%d.hdf", k);
    snprintf(log, sizeof log, "%s", hk_tmp("cl")); snprintf(log + strlen(log), 32, "_%d.txt", k);
    buf = calloc((size_t)nel, 4);
    for (q = 0; q < nel; q++) { long r = q, code = 0, mul = 1; int j; for (j = rank - 1; j >= 0; j--) { code += (r % dims[j]) * mul; mul *= 10; r /= dims[j]; } buf[q] = (int32)code; }
    sd = SDstart(f, DFACC_CREATE); id = SDcreate(sd, "c", DFNT_INT32, rank, dims);
    if (hk_chance(30)) { HDF_CHUNK_DEF c; for (i = 0; i < rank; i++) c.chunk_lengths[i] = (int32)hk_range(1, dims[i]); SDsetchunk(id, c, HDF_CHUNK); }
    SDwritedata(id, st, NULL, dims, buf); SDendaccess(id); SDend(sd);
    av[0] = "dumpsds"; av[1] = "-d"; av[2] = f;
    rc = run_tool("hdp", av, 3, log);
    n = read_numbers(log, nums, 5000, &bad);
    if (rc == 0 && !bad && n == nel) {
        for (q = 0; q < nel; q += (nel > 12 ? hk_range(1, nel / 6 + 1) : 1)) {
            long code = (long)nums[q]; int c[4], j;
            for (j = rank - 1; j >= 0; j--) { c[j] = (int)(code % 10); code /= 10; }
            printf("T tools dumpcell ");
            for (j = 0; j < rank; j++) printf("%s%d", j ? "," : "", (int)dims[j]);
            printf(" %ld => ", q);
            for (j = 0; j < rank; j++) printf("%s%d", j ? "," : "", c[j]);
            printf("\n");
        }
    }
    else hk_fail("hdp-dumpsds-values", "dump order probe: rc=%d, %d values (%d non numeric) for %ld elements", rc, n, bad, nel);
    free(buf);
    if (!getenv("HK_KEEP")) { unlink(f); unlink(log); }
}

/* ------------------------------------------------------------------------------------------- F: hdfimport */

static void tie_import(int k)
{
    char   in[700], out[700], log[700];
    char  *av[8];
    int    na = 0, rc, i;
    int    np = (int)(hk_chance(45) ? 1 : hk_range(2, 4)), nr = (int)hk_range(2, 6), nc = (int)hk_range(2, 6);
    int    fmt = (int)hk_range(0, 5); /* 0 TEXT->FP32, 1 TEXT->FP64, 2 TEXT->INT32, 3 TEXT->INT16, 4 FP32 binary, 5 IN32 binary */
    static const char *TYPES[] = {"FP32", "FP64", "INT32", "INT16"};
    long   nel, q;
    long   vals[200];
    FILE  *f;
    int32  expect_nt;
    if (hk_chance(6)) np = (int)hk_range(-1, 1);
    if (hk_chance(6)) nr = 1;
    if (hk_chance(6)) nc = (int)hk_range(0, 1);
    nel = (long)(np > 1 ? np : 1) * nr * nc;
    if (nel > 190 || nel < 0) nel = 0;
    snprintf(in, sizeof in, "%s", hk_tmp("imp")); snprintf(in + strlen(in), 32, "_%d.%s", k, fmt >= 4 ? "bin" : "txt");
    snprintf(out, sizeof out, "%s", hk_tmp("impo")); snprintf(out + strlen(out), 32, "_%d.hdf", k);
    snprintf(log, sizeof log, "%s", hk_tmp("impl")); snprintf(log + strlen(log), 32, "_%d.txt", k);
    for (q = 0; q < nel; q++) vals[q] = hk_range(-1000, 1000);
    f = fopen(in, fmt >= 4 ? "wb" : "w");
    if (!f) return;
    if (fmt < 4) {
        int isf = fmt < 2;
        fprintf(f, "TEXT\n%d %d %d\n", np, nr, nc);
        if (isf) fprintf(f, "%14.6E%14.6E\n", 0.0, 0.0); else fprintf(f, "%d %d\n", 0, 0);
        if (np > 1) { for (i = 0; i < np; i++) fprintf(f, isf ? "%14.6E" : " %d", isf ? (double)i : i); fprintf(f, "\n"); }
        for (i = 0; i < nr; i++) { if (isf) fprintf(f, "%14.6E", (double)i); else fprintf(f, " %d", i); } fprintf(f, "\n");
        for (i = 0; i < nc; i++) { if (isf) fprintf(f, "%14.6E", (double)i); else fprintf(f, " %d", i); } fprintf(f, "\n");
        for (q = 0; q < nel; q++) { if (isf) fprintf(f, "%14.6E", (double)vals[q] / 8.0); else fprintf(f, " %ld", vals[q]); if ((q + 1) % nc == 0) fprintf(f, "\n"); }
        expect_nt = fmt == 0 ? DFNT_FLOAT32 : fmt == 1 ? DFNT_FLOAT64 : fmt == 2 ? DFNT_INT32 : DFNT_INT16;
    }
    else {
        int32 h[4]; h[1] = np; h[2] = nr; h[3] = nc;
        memcpy(&h[0], fmt == 4 ? "FP32" : "IN32", 4);
        fwrite(h, 4, 4, f);
        if (fmt == 4) {
            float32 z = 0; fwrite(&z, 4, 1, f); fwrite(&z, 4, 1, f);
            if (np > 1) for (i = 0; i < np; i++) { float32 s = (float32)i; fwrite(&s, 4, 1, f); }
            for (i = 0; i < nr; i++) { float32 s = (float32)i; fwrite(&s, 4, 1, f); }
            for (i = 0; i < nc; i++) { float32 s = (float32)i; fwrite(&s, 4, 1, f); }
            for (q = 0; q < nel; q++) { float32 s = (float32)vals[q] / 8.0f; fwrite(&s, 4, 1, f); }
            expect_nt = DFNT_FLOAT32;
        }
        else {
            int32 z = 0; fwrite(&z, 4, 1, f); fwrite(&z, 4, 1, f);
            if (np > 1) for (i = 0; i < np; i++) { int32 s = i; fwrite(&s, 4, 1, f); }
            for (i = 0; i < nr; i++) { int32 s = i; fwrite(&s, 4, 1, f); }
            for (i = 0; i < nc; i++) { int32 s = i; fwrite(&s, 4, 1, f); }
            for (q = 0; q < nel; q++) { int32 s = (int32)vals[q]; fwrite(&s, 4, 1, f); }
            expect_nt = DFNT_INT32;
        }
    }
    fclose(f);
    unlink(out);
    av[na++] = in;
    if (fmt < 4) { av[na++] = "-t"; av[na++] = (char *)TYPES[fmt]; }
    av[na++] = "-o"; av[na++] = out;
    rc = run_tool("hdfimport", av, na, log);
    if (rc >= 98 && rc < 255) { crash_oracle(rc, log, "hdfimport", "hdfimport"); goto done; }
    printf("T tools import_shape %d %d %d => ", np, nr, nc);
    {
        int32 sd = (rc == 0) ? SDstart(out, DFACC_READ) : FAIL, nds = 0, na2;
        if (sd != FAIL) SDfileinfo(sd, &nds, &na2);
        if (sd == FAIL || nds == 0) { printf("fail\n"); if (sd != FAIL) SDend(sd); goto done; }
        {
            int32 id = SDselect(sd, 0), rank, dims[H4_MAX_VAR_DIMS], nt, nat, st[3] = {0, 0, 0};
            char  nm[H4_MAX_NC_NAME + 1];
            void *buf;
            long  tot = 1;
            SDgetinfo(id, nm, &rank, dims, &nt, &nat);
            for (i = 0; i < rank; i++) { printf("%s%d", i ? "," : "", (int)dims[i]); tot *= dims[i]; }
            printf("\n");
            if (nt != expect_nt) hk_fail("hdfimport-type", "format %d: SDS type %d, expected %d", fmt, (int)nt, (int)expect_nt);
            else if (tot == nel) {
                buf = calloc((size_t)tot + 1, 8);
                SDreaddata(id, st, NULL, dims, buf);
                for (q = 0; q < nel; q++) {
                    double e = (nt == DFNT_FLOAT32 || nt == DFNT_FLOAT64) ? (double)vals[q] / 8.0 : (double)vals[q];
                    double g = get_val(nt, buf, q);
                    if (fabs(g - e) > 1e-6 * (1 + fabs(e))) { hk_fail("hdfimport-values", "format %d dims %d,%d,%d: element %ld is %.9g, input %.9g", fmt, np, nr, nc, q, g, e); break; }
                }
                free(buf);
                hk_stat("import_values_compared", 1);
            }
            else hk_fail("hdfimport-values", "format %d: %ld elements in the SDS, %ld in the input", fmt, tot, nel);
            SDendaccess(id);
        }
        SDend(sd);
    }
done:
    if (!getenv("HK_KEEP")) { unlink(in); unlink(out); unlink(log); }
}

/* ------------------------------------------------------------------------------------------- G: hdfimport runs with 1-4 input files */

/* One hdfimport run takes several input files ("<infile> [-t <type> | -n]" repeated), each of its own format, rank and shape, and
 * makes one SDS (and / or the raster images) per input file, in the order of the command line.  process() keeps one input
 * descriptor, one set of options and one output file for the whole run, so whatever is left behind by file i is seen by file i+1.
 *   T tools import_run <to_float> <fmt>/<opt>/<nplanes>/<nrows>/<ncols>,...  => fail | ok <type>:<d0>x<d1>[x<d2>] ...
 * Implementation oracles: every SDS of the output equals ITS input file (shape, type, values, range, dimension scales); the
 * images of a run equal the images the same file gives when it is imported alone with the same options. */

enum { IF_TEXT, IF_FP32, IF_FP64, IF_IN32, IF_IN16, IF_IN08, IF_HDF, IF_NFMT };
enum { IO_NONE, IO_N, IO_TFP32, IO_TFP64, IO_TINT32, IO_TINT16, IO_TINT8, IO_NOPT };
enum { OT_FP32, OT_FP64, OT_INT32, OT_INT16, OT_INT8 };
static const char *IF_NAME[] = {"text", "fp32", "fp64", "in32", "in16", "in08", "hdf"};
static const char *IF_TAG[]  = {"TEXT", "FP32", "FP64", "IN32", "IN16", "IN08", "", "text", "fp32", "fp64", "in32", "in16", "in08", ""};
static const char *IO_NAME[] = {"-", "n", "tFP32", "tFP64", "tINT32", "tINT16", "tINT8"};
static const char *OT_NAME[] = {"f32", "f64", "i32", "i16", "i8"};
static const int32 OT_NT[]   = {DFNT_FLOAT32, DFNT_FLOAT64, DFNT_INT32, DFNT_INT16, DFNT_INT8};

#define IMP_MAXDIM 6
#define IMP_MAXEL  (IMP_MAXDIM * IMP_MAXDIM * IMP_MAXDIM)
#define IMP_MAXF   4
#define IMP_MAXIMG 64

typedef struct {
    int  fmt, opt;
    int  out;               /* type of the SDS this file must give (OT_*), -1: hdfimport must refuse the file */
    int  ct;                /* type of the numbers as they stand in the file */
    int  vt;                /* type that bounds the generated values */
    int  np, nr, nc;        /* header: planes, rows, columns */
    int  rank; int32 dims[3];
    long nel;
    long mx, mn;            /* header maximum / minimum.  All values: floating-point types in eighths, integer types as they are */
    int  has_range;         /* HDF input: the SDS carries a range */
    int  uniform;           /* scales are start + i * step */
    int  lower, style;
    long sc[3][IMP_MAXDIM]; /* scales: planes, rows, columns */
    long v[IMP_MAXEL];
    int  nspecial;          /* some of the v[] are IMP_SP codes */
    char name[32];
} imp_in_t;

typedef struct {
    int  raster, tofloat;
    int  ctm;               /* 0: no -e / -i, 1: -e, 2: -i */
    int  res[3];            /* horizontal, vertical, depth (0: not given) */
    int  pal, mean;
    long mean8;
    uint8 palrgb[768];      /* as DFR8getimage returns it */
} imp_opt_t;

typedef struct { int32 w, h; int ispal; uint8 *px; uint8 pal[768]; } imp_img_t;

/* what the manual says the SDS type is: TEXT takes -t / -n (default FP32); an FP64 binary file gives FP32 unless -n (or -t FP64);
   FP32 / IN32 / IN16 / IN08 binary files give their own type and take no option; an HDF file gives FP32 */
static int imp_expect_out(int fmt, int opt)
{
    int want = opt == IO_NONE ? -1 : opt == IO_N ? OT_FP64 : opt - IO_TFP32;
    switch (fmt) {
        case IF_TEXT: return want < 0 ? OT_FP32 : want;
        case IF_FP64: return want < 0 ? OT_FP32 : want == OT_FP64 ? OT_FP64 : -1;
        case IF_FP32: return want < 0 ? OT_FP32 : -1;
        case IF_IN32: return want < 0 ? OT_INT32 : -1;
        case IF_IN16: return want < 0 ? OT_INT16 : -1;
        case IF_IN08: return want < 0 ? OT_INT8 : -1;
        default: return want < 0 ? OT_FP32 : -1;
    }
}

static void imp_bounds(int vt, int tame, long *lo, long *hi)
{
    switch (vt) {
        case OT_FP32: *lo = -(1L << 20); *hi = 1L << 20; break;
        case OT_FP64: *lo = -(1L << 40); *hi = 1L << 40; break;
        case OT_INT32: *lo = -(1L << 31); *hi = (1L << 31) - 1; break;
        case OT_INT16: *lo = -32768; *hi = 32767; break;
        default: *lo = -128; *hi = 127; break;
    }
    if (tame) { if (*lo < -1000) *lo = -1000; if (*hi > 1000) *hi = 1000; }
}

static long imp_rnd(int vt, int tame)
{
    long lo, hi, v;
    imp_bounds(vt, tame, &lo, &hi);
    switch ((int)hk_range(0, 6)) {
        case 0: return lo;
        case 1: return hi;
        case 2: return 0;
        case 3: case 4: return hk_range(lo, hi);
        default: v = hk_range(-20, 20); return v < lo ? lo : v > hi ? hi : v;
    }
}

/* special floating-point values among the data of an input file (floating-point formats only): codes IMP_SP .. IMP_SP + 7.  All of
   them are float32 values, so that every path (text -> float32 / float64, FP64 -> float32, HDF) has to give exactly them */
#define IMP_SP    (LONG_MAX - 16)
#define IMP_NSP   8
#define IMP_IS_SP(u) ((u) >= IMP_SP)
static double imp_special(long u)
{
    static const uint32_t B[IMP_NSP] = {0x7fc00000u /* NaN */, 0x7f800000u /* +Inf */, 0xff800000u /* -Inf */, 0x80000000u /* -0.0 */,
                                        0x7f7fffffu /* FLT_MAX */, 0xff7fffffu, 0x00800000u /* FLT_MIN */, 0x00000001u /* least denormal */};
    float32 x;
    memcpy(&x, &B[(u - IMP_SP) % IMP_NSP], 4);
    return (double)x;
}

static double imp_dbl(int t, long u) { return IMP_IS_SP(u) ? imp_special(u) : t <= OT_FP64 ? (double)u / 8.0 : (double)u; }

/* the same value: a NaN for a NaN, otherwise the same number with the same sign (-0.0 is not 0.0) */
static int imp_same(double g, double e) { return (isnan(g) && isnan(e)) || (g == e && !signbit(g) == !signbit(e)); }

static void imp_put_bin(FILE *f, int ct, long u)
{
    if (IMP_IS_SP(u)) {
        if (ct == OT_FP32) { float32 x = (float32)imp_special(u); fwrite(&x, 4, 1, f); } else { float64 x = imp_special(u); fwrite(&x, 8, 1, f); }
        return;
    }
    switch (ct) {
        case OT_FP32: { float32 x = (float32)u / 8.0f; fwrite(&x, 4, 1, f); break; }
        case OT_FP64: { float64 x = (float64)u / 8.0; fwrite(&x, 8, 1, f); break; }
        case OT_INT32: { int32 x = (int32)u; fwrite(&x, 4, 1, f); break; }
        case OT_INT16: { int16 x = (int16)u; fwrite(&x, 2, 1, f); break; }
        default: { int8 x = (int8)u; fwrite(&x, 1, 1, f); break; }
    }
}

static void imp_put_txt(FILE *f, int ct, long u, int style)
{
    if (IMP_IS_SP(u)) fprintf(f, " %.17g", imp_special(u)); /* nan, inf, -inf, -0, 3.4028234663852886e+38, ... */
    else if (ct <= OT_FP64) {
        if (style == 1 && labs(u) < 64000) fprintf(f, "%14.6E", (double)u / 8.0); /* the layout of the manual's examples */
        else fprintf(f, " %.17g", (double)u / 8.0);
    }
    else fprintf(f, " %ld", u);
}

static void imp_put(FILE *f, const imp_in_t *d, long u)
{
    if (d->fmt == IF_TEXT) imp_put_txt(f, d->ct, u, d->style); else imp_put_bin(f, d->ct, u);
}

static int imp_write(const char *dir, const imp_in_t *d)
{
    char  path[800];
    int   i, a;
    long  q;
    snprintf(path, sizeof path, "%s/%s", dir, d->name);
    unlink(path);
    if (d->fmt == IF_HDF) {
        int32   sd = SDstart(path, DFACC_CREATE), id, st[3] = {0, 0, 0};
        float32 buf[IMP_MAXEL + 1], sc[IMP_MAXDIM + 1], mx = (float32)d->mx / 8.0f, mn = (float32)d->mn / 8.0f;
        int     ok = 1;
        if (sd == FAIL) return -1;
        id = SDcreate(sd, "in", DFNT_FLOAT32, d->rank, (int32 *)d->dims);
        if (id == FAIL) { SDend(sd); return -1; }
        if (d->has_range && SDsetrange(id, &mx, &mn) == FAIL) ok = 0;
        for (a = 0; a < d->rank; a++) {
            const long *s = d->sc[3 - d->rank + a];
            for (i = 0; i < d->dims[a]; i++) sc[i] = (float32)s[i] / 8.0f;
            if (SDsetdimscale(SDgetdimid(id, a), d->dims[a], DFNT_FLOAT32, sc) == FAIL) ok = 0;
        }
        for (q = 0; q < d->nel; q++) buf[q] = IMP_IS_SP(d->v[q]) ? (float32)imp_special(d->v[q]) : (float32)d->v[q] / 8.0f;
        if (SDwritedata(id, st, NULL, (int32 *)d->dims, buf) == FAIL) ok = 0;
        SDendaccess(id);
        if (SDend(sd) == FAIL) ok = 0;
        return ok ? 0 : -1;
    }
    {
        FILE *f = fopen(path, d->fmt == IF_TEXT ? "w" : "wb");
        const char *tag = IF_TAG[d->fmt + (d->lower ? IF_NFMT : 0)];
        const char *nl = d->fmt == IF_TEXT ? "\n" : "";
        if (!f) return -1;
        if (d->fmt == IF_TEXT) fprintf(f, "%s\n%d %d %d\n", tag, d->np, d->nr, d->nc);
        else { int32 h[3]; h[0] = d->np; h[1] = d->nr; h[2] = d->nc; fwrite(tag, 4, 1, f); fwrite(h, 4, 3, f); }
        imp_put(f, d, d->mx); imp_put(f, d, d->mn); fputs(nl, f);
        if (d->np > 1) { for (i = 0; i < d->np && i < IMP_MAXDIM; i++) imp_put(f, d, d->sc[0][i]); fputs(nl, f); }
        for (i = 0; i < d->nr && i < IMP_MAXDIM; i++) imp_put(f, d, d->sc[1][i]);
        fputs(nl, f);
        for (i = 0; i < d->nc && i < IMP_MAXDIM; i++) imp_put(f, d, d->sc[2][i]);
        fputs(nl, f);
        for (q = 0; q < d->nel; q++) { imp_put(f, d, d->v[q]); if (d->nc > 0 && (q + 1) % d->nc == 0) fputs(nl, f); }
        fclose(f);
    }
    return 0;
}

static int imp_allow_special = 1;

/* one input file: format and option (valid together unless `bad` asks for a refusal), shape, range, scales, values */
static void imp_gen_file(imp_in_t *d, int raster, int bad, int k, int idx)
{
    static const int FP32_OUT[][2] = {{IF_TEXT, IO_NONE}, {IF_TEXT, IO_TFP32}, {IF_FP32, IO_NONE}, {IF_FP64, IO_NONE}, {IF_HDF, IO_NONE}};
    static const int BAD_OPT[][2] = {{IF_FP32, IO_N}, {IF_FP32, IO_TFP32}, {IF_IN32, IO_TINT32}, {IF_IN16, IO_N}, {IF_IN08, IO_TINT8},
                                     {IF_FP64, IO_TFP32}, {IF_FP64, IO_TINT32}, {IF_IN32, IO_TFP64}};
    int  i, a, tame = raster;
    long q, lo, hi, dmax, dmin;
    memset(d, 0, sizeof *d);
    if (bad == 2) { int p = (int)hk_range(0, 7); d->fmt = BAD_OPT[p][0]; d->opt = BAD_OPT[p][1]; }
    else if (raster) { int p = (int)hk_range(0, 4); d->fmt = FP32_OUT[p][0]; d->opt = FP32_OUT[p][1]; }
    else {
        d->fmt = (int)hk_range(0, IF_NFMT - 1);
        d->opt = IO_NONE;
        if (d->fmt == IF_TEXT) d->opt = (int)hk_range(0, IO_NOPT - 1);
        if (d->fmt == IF_FP64) d->opt = (int)(hk_chance(50) ? IO_NONE : hk_chance(75) ? IO_N : IO_TFP64);
    }
    if (bad == 1 && d->fmt == IF_HDF) d->fmt = IF_TEXT;
    d->out = imp_expect_out(d->fmt, d->opt);
    switch (d->fmt) {
        case IF_TEXT: d->ct = d->out >= 0 ? d->out : OT_FP32; break;
        case IF_FP64: d->ct = OT_FP64; break;
        case IF_IN32: d->ct = OT_INT32; break;
        case IF_IN16: d->ct = OT_INT16; break;
        case IF_IN08: d->ct = OT_INT8; break;
        default: d->ct = OT_FP32; break;
    }
    d->vt = d->out >= 0 ? d->out : d->ct;
    d->np = (int)(hk_chance(50) ? 1 : hk_range(2, IMP_MAXDIM));
    d->nr = (int)hk_range(2, IMP_MAXDIM);
    d->nc = (int)hk_range(2, IMP_MAXDIM);
    if (bad == 1) switch ((int)hk_range(0, 3)) {
        case 0: d->np = (int)hk_range(-1, 0); break;
        case 1: d->nr = (int)hk_range(0, 1); break;
        case 2: d->nc = (int)hk_range(0, 1); break;
        default: d->nc = 1; d->nr = 1; break;
    }
    if (bad == 1) d->out = -1;
    d->rank = d->np > 1 ? 3 : 2;
    if (d->rank == 3) { d->dims[0] = d->np; d->dims[1] = d->nr; d->dims[2] = d->nc; } else { d->dims[0] = d->nr; d->dims[1] = d->nc; }
    d->nel = (long)(d->np > 1 ? d->np : 1) * (d->nr > 0 ? d->nr : 0) * (d->nc > 0 ? d->nc : 0);
    d->lower = hk_chance(15);
    d->style = (int)hk_range(0, 1);
    snprintf(d->name, sizeof d->name, "i%d_%d.%s", k, idx, d->fmt == IF_TEXT ? "txt" : d->fmt == IF_HDF ? "hdf" : "bin");
    for (q = 0; q < d->nel; q++) d->v[q] = imp_rnd(d->vt, tame);
    if (raster && d->nel > 1 && d->v[0] == d->v[1]) d->v[1] = d->v[0] + 8; /* an image needs max > min */
    dmax = dmin = d->v[0];
    for (q = 1; q < d->nel; q++) { if (d->v[q] > dmax) dmax = d->v[q]; if (d->v[q] < dmin) dmin = d->v[q]; }
    imp_bounds(d->vt, tame, &lo, &hi);
    /* the header range: as the data have it / wider than the data / absent (max == min or max < min: hdfimport computes it) */
    switch ((int)hk_range(0, raster ? 2 : 4)) {
        case 0: d->mx = dmax; d->mn = dmin; break;
        case 1: d->mx = dmax + hk_range(0, 40); d->mn = dmin - hk_range(0, 40);
                if (d->mx > hi) d->mx = hi; if (d->mn < lo) d->mn = lo; break;
        case 2: d->mx = d->mn = raster ? 0 : imp_rnd(d->vt, tame); break;
        case 3: d->mx = imp_rnd(d->vt, tame); d->mn = imp_rnd(d->vt, tame); break; /* any two numbers: the header is not checked against the data */
        default: d->mx = dmin; d->mn = dmax; break;
    }
    d->has_range = 1;
    if (d->fmt == IF_HDF) {
        if (!raster && hk_chance(20)) d->has_range = 0;
        if (raster && !(d->mx > d->mn)) { d->mx = dmax; d->mn = dmin; } /* an HDF input has no computed range */
    }
    /* NaN, +-Inf, -0.0, +-FLT_MAX, FLT_MIN, a denormal among the data of a floating-point file (no images of them: a pixel is
       (unsigned char)(ratio * (v - min) + 1.5)).  The header then carries a range (max > min): hdfimport stores it as it is */
    if (imp_allow_special && !raster && !bad && d->out >= 0 && d->out <= OT_FP64 && d->nel > 0 && hk_chance(35)) {
        int cnt = (int)hk_range(1, 3);
        if (!(d->mx > d->mn)) { d->mx = dmax; d->mn = dmin; if (!(d->mx > d->mn)) d->mx = d->mn + 8; }
        while (cnt-- > 0) d->v[hk_range(0, d->nel - 1)] = IMP_SP + hk_range(0, IMP_NSP - 1);
        d->nspecial = 1;
    }
    /* scales: images need strictly increasing ones (indexes() / interp() divide by the differences) */
    d->uniform = raster ? hk_chance(60) : hk_chance(30);
    for (a = 0; a < 3; a++) {
        long start, step = hk_range(1, 2) * 8;
        if (d->vt == OT_INT8) { start = hk_range(-100, 60); step = hk_range(1, 4); }
        else if (d->vt >= OT_INT32) { start = hk_range(-500, 500); step = hk_range(1, 9); }
        else start = hk_range(-40, 40) * 8;
        for (i = 0; i < IMP_MAXDIM; i++) {
            if (d->uniform) d->sc[a][i] = start + i * step;
            else if (raster) d->sc[a][i] = (i ? d->sc[a][i - 1] : start) + hk_range(1, 24);
            else d->sc[a][i] = imp_rnd(d->vt, 0);
        }
    }
}

static void imp_free_images(imp_img_t *im, int n) { int i; for (i = 0; i < n; i++) free(im[i].px); }

static int imp_read_images(const char *path, imp_img_t *im, int cap)
{
    int n = DFR8nimages(path), i;
    if (n < 0) n = 0;
    if (n > cap) n = cap;
    DFR8restart();
    for (i = 0; i < n; i++) {
        memset(&im[i], 0, sizeof im[i]);
        if (DFR8getdims(path, &im[i].w, &im[i].h, &im[i].ispal) == FAIL) return i;
        im[i].px = calloc((size_t)im[i].w * im[i].h + 1, 1);
        if (DFR8getimage(path, im[i].px, im[i].w, im[i].h, im[i].pal) == FAIL) { free(im[i].px); return i; }
    }
    return n;
}

static void imp_desc(char *out, size_t cap, const imp_in_t *fs, int nf, int j)
{
    int i; size_t n;
    snprintf(out, cap, "input %d of %d (", j + 1, nf);
    for (i = 0; i < nf; i++) {
        n = strlen(out);
        snprintf(out + n, cap - n, "%s%s%s%s%s %dx%dx%d", i ? ", " : "", i == j ? "[" : "", IF_NAME[fs[i].fmt], fs[i].opt ? " -" : "", fs[i].opt ? IO_NAME[fs[i].opt] : "",
                 fs[i].np, fs[i].nr, fs[i].nc);
        n = strlen(out);
        snprintf(out + n, cap - n, "%s", i == j ? "]" : "");
    }
    n = strlen(out);
    snprintf(out + n, cap - n, ")");
}

/* the numbers of -e / -i as they stand when input `upto` is reached.  kept = 0: as given on the command line.  kept = 1: as
   process() has them: when -e asks for less than the data shape of a file, the raised number is stored back into the options
   ("opt->hres = in.dims[0]") and so holds for every later file of the run */
static void imp_requested(const imp_in_t *fs, int upto, const imp_opt_t *o, int kept, int req[3])
{
    int j, a;
    for (a = 0; a < 3; a++) req[a] = o->res[a];
    for (j = 0; kept && j < upto; j++) {
        int dim[3];
        dim[0] = fs[j].nc; dim[1] = fs[j].nr; dim[2] = fs[j].np;
        for (a = 0; a < 3; a++) if (o->ctm != 2 && req[a] != 0 && req[a] < dim[a] && (a < 2 || fs[j].rank == 3)) req[a] = dim[a];
    }
}

/* resolution of the images of one input: "-e: cannot make image smaller", -i and plain -r take the numbers as given / the data shape */
static void imp_expect_res(const imp_in_t *fs, int j, const imp_opt_t *o, int kept, int res[3])
{
    const imp_in_t *d = &fs[j];
    int dim[3], req[3], a;
    imp_requested(fs, j, o, kept, req);
    dim[0] = d->nc; dim[1] = d->nr; dim[2] = d->np;
    for (a = 0; a < 3; a++) {
        res[a] = req[a] == 0 ? dim[a] : req[a];
        if (o->ctm != 2 && res[a] < dim[a]) res[a] = dim[a];
    }
    if (d->rank == 2) res[2] = 1;
}

/* do number and sizes of the images fit the inputs? */
static int imp_layout_fits(const imp_img_t *im, int nim, const imp_in_t *fs, int nf, const imp_opt_t *o, int kept)
{
    int j, p, at = 0, res[3];
    for (j = 0; j < nf; j++) {
        imp_expect_res(fs, j, o, kept, res);
        if (at + res[2] > nim) return 0;
        for (p = 0; p < res[2]; p++) if (im[at + p].w != res[0] || im[at + p].h != res[1]) return 0;
        at += res[2];
    }
    return at == nim;
}

/* the SDSs of the output against their input files; prints the T line */
static void imp_check_output(const char *outpath, int rc, const imp_in_t *fs, int nf, const imp_opt_t *o, int expect_fail)
{
    int   i, j, a, nsds = 0;
    int32 sd, nds = 0, nat = 0;
    char  what[400];
    printf("T tools import_run %d ", o->tofloat);
    for (i = 0; i < nf; i++) printf("%s%s/%s/%d/%d/%d", i ? "," : "", IF_NAME[fs[i].fmt], IO_NAME[fs[i].opt], fs[i].np, fs[i].nr, fs[i].nc);
    printf(" => ");
    if (rc != 0) {
        printf("fail\n");
        if (!expect_fail) { imp_desc(what, sizeof what, fs, nf, -1); hk_fail("hdfimport-status", "hdfimport exits %d on valid input files: %s", rc, what); }
        return;
    }
    if (expect_fail) { imp_desc(what, sizeof what, fs, nf, -1); hk_fail("hdfimport-status", "hdfimport exits 0 although one input file must be refused: %s", what); }
    sd = SDstart(outpath, DFACC_READ);
    if (sd == FAIL) { printf("unreadable\n"); hk_fail("hdfimport-output", "SDstart fails on the output file"); return; }
    SDfileinfo(sd, &nds, &nat);
    printf("ok");
    for (i = 0; i < nds; i++) {
        int32 id = SDselect(sd, i), rank = 0, dims[H4_MAX_VAR_DIMS], nt = 0, na = 0;
        char  nm[H4_MAX_NC_NAME + 1];
        if (id == FAIL) continue;
        if (SDiscoordvar(id)) { SDendaccess(id); continue; }
        SDgetinfo(id, nm, &rank, dims, &nt, &na);
        printf(" ");
        for (j = 0; j < 5; j++) if (OT_NT[j] == nt) break;
        if (j < 5) printf("%s:", OT_NAME[j]); else printf("%d:", (int)nt);
        for (a = 0; a < rank; a++) printf("%s%d", a ? "x" : "", (int)dims[a]);
        nsds++;
        SDendaccess(id);
    }
    if (!nsds) printf(" -");
    printf("\n");
    if (expect_fail) { SDend(sd); return; }
    if (nsds != (o->tofloat ? nf : 0)) hk_fail("hdfimport-count", "%d data sets in the output of a run with %d input files (SDS output %s)", nsds, nf, o->tofloat ? "on" : "off");
    for (i = 0, j = 0; i < nds && j < nf && o->tofloat; i++) {
        const imp_in_t *d = &fs[j];
        int32  id = SDselect(sd, i), rank = 0, dims[H4_MAX_VAR_DIMS], nt = 0, na = 0, st[3] = {0, 0, 0};
        char   nm[H4_MAX_NC_NAME + 1];
        double buf[IMP_MAXEL + 8];
        long   q, dmax, dmin;
        int    same;
        if (id == FAIL) continue;
        if (SDiscoordvar(id)) { SDendaccess(id); continue; }
        imp_desc(what, sizeof what, fs, nf, j);
        SDgetinfo(id, nm, &rank, dims, &nt, &na);
        same = rank == d->rank;
        for (a = 0; same && a < rank; a++) if (dims[a] != d->dims[a]) same = 0;
        if (!same) hk_fail("hdfimport-shape", "%s: SDS %s has rank %d dims %d,%d,%d", what, nm, (int)rank, (int)dims[0], (int)dims[1], rank > 2 ? (int)dims[2] : 0);
        else if (nt != OT_NT[d->out]) hk_fail("hdfimport-type", "%s: SDS %s has type %d, expected %d", what, nm, (int)nt, (int)OT_NT[d->out]);
        else {
            /* values */
            memset(buf, 0, sizeof buf);
            if (SDreaddata(id, st, NULL, dims, buf) == FAIL) hk_fail("hdfimport-values", "%s: SDreaddata fails", what);
            else for (q = 0; q < d->nel; q++) {
                double e = imp_dbl(d->out, d->v[q]), g = get_val(nt, buf, q);
                if (IMP_IS_SP(d->v[q]) ? !imp_same(g, e) : g != e) { hk_fail("hdfimport-values", "%s: element %ld of SDS %s is %.17g, the input file has %.17g", what, q, nm, g, e); break; }
            }
            if (d->nspecial) hk_stat("import_run_special_values", 1);
            /* range: the header's when it has max > min, that of the data otherwise; an HDF input's is copied */
            dmax = dmin = d->v[0];
            for (q = 1; q < d->nel; q++) { if (d->v[q] > dmax) dmax = d->v[q]; if (d->v[q] < dmin) dmin = d->v[q]; }
            if (d->fmt != IF_HDF || d->has_range) {
                double mx[2] = {0, 0}, mn[2] = {0, 0};
                long   emx = d->mx, emn = d->mn;
                if (d->fmt != IF_HDF && !(d->mx > d->mn)) { emx = dmax; emn = dmin; }
                if (SDgetrange(id, mx, mn) == FAIL) hk_fail("hdfimport-range", "%s: SDS %s has no range", what, nm);
                else if (get_val(nt, mx, 0) != imp_dbl(d->out, emx) || get_val(nt, mn, 0) != imp_dbl(d->out, emn))
                    hk_fail("hdfimport-range", "%s: range of SDS %s is %.17g..%.17g, expected %.17g..%.17g", what, nm, get_val(nt, mn, 0), get_val(nt, mx, 0),
                            imp_dbl(d->out, emn), imp_dbl(d->out, emx));
            }
            /* dimension scales */
            for (a = 0; a < rank; a++) {
                int32  dim = SDgetdimid(id, a), size = 0, snt = 0, sna = 0;
                char   dn[H4_MAX_NC_NAME + 1];
                double sb[IMP_MAXDIM + 4];
                const long *s = d->sc[3 - d->rank + a];
                int    x;
                memset(sb, 0, sizeof sb);
                if (dim == FAIL || SDdiminfo(dim, dn, &size, &snt, &sna) == FAIL) { hk_fail("hdfimport-scales", "%s: SDdiminfo fails for dimension %d", what, a); continue; }
                if (snt != nt) { hk_fail("hdfimport-scales", "%s: scale of dimension %d of SDS %s has type %d, the data %d", what, a, nm, (int)snt, (int)nt); continue; }
                if (SDgetdimscale(dim, sb) == FAIL) { hk_fail("hdfimport-scales", "%s: SDgetdimscale fails for dimension %d", what, a); continue; }
                for (x = 0; x < dims[a]; x++)
                    if (get_val(nt, sb, x) != imp_dbl(d->out, s[x])) {
                        hk_fail("hdfimport-scales", "%s: scale value %d of dimension %d of SDS %s is %.17g, the input file has %.17g", what, x, a, nm, get_val(nt, sb, x), imp_dbl(d->out, s[x]));
                        break;
                    }
            }
            hk_stat("import_run_sds_compared", 1);
        }
        SDendaccess(id);
        j++;
    }
    SDend(sd);
}

/* the images of the run: count and resolution per input; pixels where no expansion takes place and the scales are evenly spaced
   (every pixel is then one data value: (unsigned char)(237.9 / (max - min) * (v - min) + 1.5)); palette */
static void imp_check_images(const imp_img_t *im, int nim, const imp_in_t *fs, int nf, const imp_opt_t *o, int kept)
{
    int  j, at = 0, p, x;
    char what[400];
    for (j = 0; j < nf; j++) {
        const imp_in_t *d = &fs[j];
        int res[3], direct;
        imp_expect_res(fs, j, o, kept, res);
        imp_desc(what, sizeof what, fs, nf, j);
        if (at + res[2] > nim) { hk_fail("hdfimport-raster-count", "%s: %d images in the output, this input's %d images start at %d", what, nim, res[2], at); return; }
        direct = d->uniform && res[0] == d->nc && res[1] == d->nr && (d->rank == 2 || res[2] == d->np);
        for (p = 0; p < res[2]; p++) {
            const imp_img_t *g = &im[at + p];
            if (g->w != res[0] || g->h != res[1]) { hk_fail("hdfimport-raster-resolution", "%s: image %d is %dx%d, expected %dx%d", what, at + p, (int)g->w, (int)g->h, res[0], res[1]); direct = 0; break; }
            if (o->pal != (g->ispal != 0) || (o->pal && memcmp(g->pal, o->palrgb, 768) != 0)) { hk_fail("hdfimport-raster-palette", "%s: image %d %s", what, at + p, g->ispal ? "has another palette than the -p file" : "has no palette"); break; }
        }
        if (direct) {
            float32 mx = (float32)d->mx / 8.0f, mn = (float32)d->mn / 8.0f, ratio;
            long    q, dmax = d->v[0], dmin = d->v[0];
            for (q = 1; q < d->nel; q++) { if (d->v[q] > dmax) dmax = d->v[q]; if (d->v[q] < dmin) dmin = d->v[q]; }
            if (!(mx > mn)) { mx = (float32)dmax / 8.0f; mn = (float32)dmin / 8.0f; }
            if (o->mean) {
                float32 m = (float32)o->mean8 / 8.0f, a = (float32)fabs((double)(mx - m)), b = (float32)fabs((double)(m - mn)), dl = a > b ? a : b;
                mx = m + dl; mn = m - dl;
            }
            ratio = (float32)237.9 / (mx - mn);
            for (p = 0; p < res[2] && direct; p++)
                for (x = 0; x < res[0] * res[1]; x++) {
                    float32 v = (float32)d->v[(long)p * res[0] * res[1] + x] / 8.0f;
                    int     e, got = im[at + p].px[x];
                    if (o->ctm == 2) { if (v > mx) v = mx; if (v < mn) v = mn; }
                    e = (unsigned char)((ratio * (v - mn)) + (float32)1.5);
                    if (abs(got - e) > 1) { hk_fail("hdfimport-raster-pixels", "%s: pixel %d of image %d is %d, the data value %.9g in %.9g..%.9g gives %d", what, x, at + p, got, (double)v, (double)mn, (double)mx, e); direct = 0; break; }
                }
            hk_stat("import_run_pixels_compared", 1);
        }
        at += res[2];
    }
    if (at != nim) hk_fail("hdfimport-raster-count", "%d images in the output, the %d input files give %d", nim, nf, at);
}

static void oracle_import_run(int k)
{
    static imp_in_t fs[IMP_MAXF];
    static imp_img_t im[IMP_MAXIMG], im1[IMP_MAXIMG];
    imp_opt_t o;
    char  out[1000], log[800], outname[160], palname[160], nbuf[8][24];
    char *av[64], *tail[24];
    int   na = 0, nt = 0, nn = 0, nf, i, rc, bad = 0, badidx = -1, nim = 0, kept = 0, resat[3] = {-1, -1, -1}, nonfloat = 0, longname = 0;
    memset(&o, 0, sizeof o);
    nf = (int)(hk_chance(15) ? 1 : hk_chance(45) ? 2 : hk_range(3, IMP_MAXF));
    o.raster = hk_chance(35);
    if (hk_chance(8)) { bad = (int)hk_range(1, 2); badidx = (int)hk_range(0, nf - 1); }
    for (i = 0; i < nf; i++) imp_gen_file(&fs[i], o.raster, i == badidx ? bad : 0, k, i);
    snprintf(outname, sizeof outname, "o%d.hdf", k);
    snprintf(palname, sizeof palname, "p%d.pal", k);
    /* two families the manual does not exclude and process() does not refuse, reported under the key of their cause:
       images asked for data that are not 32-bit floats (pixrep / interp work on float32 data and the float32 scale buffers,
       which only exist for FP32 output), and file names longer than the char[32] fields of the option record */
    if (o.raster && !bad && hk_chance(10)) {
        int x = (int)hk_range(0, nf - 1);
        imp_allow_special = 0;
        do imp_gen_file(&fs[x], 0, 0, k, x); while (fs[x].out == OT_FP32);
        imp_allow_special = 1;
        nonfloat = 1;
    }
    else if (!bad && hk_chance(8)) {
        static const int LEN[] = {32, 33, 48, 63, 64, 65, 80, 120};
        int L = HK_PICK(LEN), which = (int)hk_range(o.raster ? 0 : 1, 2); /* 0: palette file, 1: output file, 2: both */
        if (which >= 1) { memset(outname, 'o', (size_t)L); snprintf(outname + L - 11, 12, "%07d.hdf", k % 10000000); }
        if (which != 1) { memset(palname, 'p', (size_t)L); snprintf(palname + L - 11, 12, "%07d.pal", k % 10000000); }
        longname = 1 + which;
    }
    else if (hk_chance(10)) { memset(outname, 'o', 31); snprintf(outname + 31 - 11, 12, "%07d.hdf", k % 10000000); } /* the longest name that fits */
    snprintf(out, sizeof out, "%s/%s", hk_tmpdir, outname);
    snprintf(log, sizeof log, "%s/il%d.txt", hk_tmpdir, k);
    for (i = 0; i < nf; i++) if (imp_write(hk_tmpdir, &fs[i]) != 0) { hk_fail("generator", "imp_write failed"); goto done; }
    /* the options after the output file (one set for the whole run) */
    o.tofloat = 1;
    if (!o.raster) { if (hk_chance(20)) tail[nt++] = hk_chance(50) ? "-f" : "-float"; }
    else {
        int maxd[3] = {2, 2, 2}, items[3], ni = 0, f_first = hk_chance(30), f_last, a;
        for (i = 0; i < nf; i++) { if (fs[i].nc > maxd[0]) maxd[0] = fs[i].nc; if (fs[i].nr > maxd[1]) maxd[1] = fs[i].nr; if (fs[i].np > maxd[2]) maxd[2] = fs[i].np; }
        if (f_first) tail[nt++] = "-f";
        tail[nt++] = hk_chance(50) ? "-r" : "-raster";
        o.ctm = (int)hk_range(0, 2); o.pal = hk_chance(35) || longname == 1 || longname == 3; o.mean = hk_chance(30);
        if (o.ctm) items[ni++] = 0;
        if (o.pal) items[ni++] = 1;
        if (o.mean) items[ni++] = 2;
        for (i = ni - 1; i > 0; i--) { int x = (int)hk_range(0, i), t = items[i]; items[i] = items[x]; items[x] = t; }
        for (i = 0; i < ni; i++) switch (items[i]) {
            case 0:
                tail[nt++] = o.ctm == 1 ? (hk_chance(50) ? "-e" : "-expand") : (hk_chance(50) ? "-i" : "-interp");
                for (a = 0; a < 3; a++) {
                    /* -i: not below the data shape (manual); -e: anything from 2 up, a smaller number is raised to the data shape */
                    if (a == 2 && hk_chance(50)) break;
                    o.res[a] = hk_chance(35) ? maxd[a] : o.ctm == 2 ? maxd[a] + (int)hk_range(0, 4) : (int)hk_range(2, maxd[a] + 4);
                    snprintf(nbuf[nn], sizeof nbuf[nn], "%d", o.res[a]); resat[a] = nt; tail[nt++] = nbuf[nn++];
                }
                break;
            case 1: tail[nt++] = hk_chance(50) ? "-p" : "-palfile"; tail[nt++] = palname; break;
            default:
                o.mean8 = hk_range(-1200, 1200);
                tail[nt++] = hk_chance(50) ? "-m" : "-mean";
                snprintf(nbuf[nn], sizeof nbuf[nn], "%.3f", (double)o.mean8 / 8.0); tail[nt++] = nbuf[nn++];
                break;
        }
        f_last = !f_first && hk_chance(40);
        if (f_last) tail[nt++] = hk_chance(50) ? "-f" : "-float";
        o.tofloat = f_first || f_last;
        if (o.pal) {
            uint8 raw[768]; char pp[800]; FILE *pf; int c;
            for (c = 0; c < 768; c++) raw[c] = hk_byte();
            for (c = 0; c < 256; c++) { o.palrgb[3 * c] = raw[c]; o.palrgb[3 * c + 1] = raw[256 + c]; o.palrgb[3 * c + 2] = raw[512 + c]; }
            snprintf(pp, sizeof pp, "%s/%s", hk_tmpdir, palname);
            pf = fopen(pp, "wb"); if (pf) { fwrite(raw, 1, 768, pf); fclose(pf); }
        }
    }
    for (i = 0; i < nf; i++) {
        static const char *TN[] = {"FP32", "FP64", "INT32", "INT16", "INT8"};
        av[na++] = fs[i].name;
        if (fs[i].opt == IO_N) av[na++] = "-n";
        else if (fs[i].opt >= IO_TFP32) { av[na++] = hk_chance(50) ? "-t" : "-type"; av[na++] = (char *)TN[fs[i].opt - IO_TFP32]; }
    }
    av[na++] = hk_chance(50) ? "-o" : "-outfile"; av[na++] = outname;
    for (i = 0; i < nt; i++) av[na++] = tail[i];
    unlink(out);
    run_cwd = hk_tmpdir;
    rc = run_tool("hdfimport", av, na, log);
    run_cwd = NULL;
    if (verbose) { fprintf(stderr, "case %d: hdfimport", k); for (i = 0; i < na; i++) fprintf(stderr, " %s", av[i]); fprintf(stderr, " -> %d\n", rc); }
    if (nonfloat) {
        if (rc >= 98 && rc != 255) {
            char what[400]; imp_desc(what, sizeof what, fs, nf, -1);
            hk_fail("hdfimport-raster-needs-float32", "hdfimport -r on data that are not 32-bit floats is neither refused nor carried out (status %d: sanitizer report / signal): %s", rc, what);
        }
        hk_stat("import_run_raster_nonfloat", 1);
        goto done;
    }
    if (longname) {
        int32 sd = rc == 0 ? SDstart(out, DFACC_READ) : FAIL, nds = 0, nat = 0, n = 0;
        if (sd != FAIL) { SDfileinfo(sd, &nds, &nat); for (i = 0; i < nds; i++) { int32 id = SDselect(sd, i); if (id != FAIL) { if (!SDiscoordvar(id)) n++; SDendaccess(id); } } SDend(sd); }
        if (rc != 0 || sd == FAIL || n != (o.tofloat ? nf : 0) || (o.raster && DFR8nimages(out) < nf))
            hk_fail("hdfimport-file-name-buffer", "output file name of %d, palette file name of %d characters (%d input files, SDS output %s, images %s): status %d, output file %s, %d data sets",
                    (int)strlen(outname), o.pal ? (int)strlen(palname) : 0, nf, o.tofloat ? "on" : "off", o.raster ? "on" : "off", rc, sd == FAIL ? "missing or unreadable" : "readable", (int)n);
        hk_stat("import_run_long_names", 1);
        goto done;
    }
    if (rc >= 98 && rc != 255) { char what[400]; imp_desc(what, sizeof what, fs, nf, -1); crash_oracle(rc, log, "hdfimport", what); goto done; }
    hk_stat(bad ? "import_run_refused" : o.raster ? "import_run_raster" : "import_run_sds", 1);
    imp_check_output(out, rc, fs, nf, &o, bad != 0);
    if (rc != 0 || bad || !o.raster) goto done;
    nim = imp_read_images(out, im, IMP_MAXIMG);
    if (!imp_layout_fits(im, nim, fs, nf, &o, 0) && imp_layout_fits(im, nim, fs, nf, &o, 1)) {
        /* every input got the resolution process() has for it, not the one of the command line */
        int res0[3], res1[3];
        kept = 1;
        for (i = 0; i < nf; i++) { imp_expect_res(fs, i, &o, 0, res0); imp_expect_res(fs, i, &o, 1, res1); if (memcmp(res0, res1, sizeof res0)) break; }
        if (i < nf) {
            char what[400];
            imp_desc(what, sizeof what, fs, nf, i);
            hk_fail("hdfimport-expand-resolution-kept", "%s: -e %d %d %d gives this input images of %dx%d (%d of them) instead of %dx%d (%d): the resolution raised for an earlier input is kept",
                    what, o.res[0], o.res[1], o.res[2], res1[0], res1[1], res1[2], res0[0], res0[1], res0[2]);
        }
    }
    imp_check_images(im, nim, fs, nf, &o, kept);
    /* every input alone, same options: the run's images are those of its inputs, one after the other */
    if (nf > 1) {
        int at = 0, ok = 1;
        for (i = 0; i < nf && ok; i++) {
            char  one[800], onename[32], what[400], rbuf[3][24];
            int   n1, p, na1 = 0, t, a, req[3];
            char *av1[40];
            snprintf(onename, sizeof onename, "s%d_%d.hdf", k, i);
            snprintf(one, sizeof one, "%s/%s", hk_tmpdir, onename);
            av1[na1++] = fs[i].name;
            if (fs[i].opt >= IO_TFP32) { av1[na1++] = "-t"; av1[na1++] = "FP32"; }
            av1[na1++] = "-o"; av1[na1++] = onename;
            for (t = 0; t < nt; t++) av1[na1++] = tail[t];
            /* under the finding above the file alone is given the numbers the run had reached */
            imp_requested(fs, i, &o, kept, req);
            for (a = 0; a < 3; a++) if (resat[a] >= 0) { snprintf(rbuf[a], sizeof rbuf[a], "%d", req[a]); av1[na1 - nt + resat[a]] = rbuf[a]; }
            unlink(one);
            run_cwd = hk_tmpdir;
            rc = run_tool("hdfimport", av1, na1, log);
            run_cwd = NULL;
            imp_desc(what, sizeof what, fs, nf, i);
            if (rc >= 98 && rc != 255) { crash_oracle(rc, log, "hdfimport", what); ok = 0; }
            else if (rc != 0) { hk_fail("hdfimport-status", "%s: hdfimport exits %d on this file alone", what, rc); ok = 0; }
            else {
                n1 = imp_read_images(one, im1, IMP_MAXIMG);
                for (p = 0; p < n1 && ok; p++) {
                    const imp_img_t *a = &im1[p], *b = at + p < nim ? &im[at + p] : NULL;
                    if (!b) { hk_fail("hdfimport-run-independent", "%s: alone it gives %d images, the run has only %d left for it", what, n1, nim - at); ok = 0; }
                    else if (a->w != b->w || a->h != b->h) { hk_fail("hdfimport-run-independent", "%s: image %d is %dx%d when the file is imported alone, %dx%d in the run", what, p, (int)a->w, (int)a->h, (int)b->w, (int)b->h); ok = 0; }
                    else if (memcmp(a->px, b->px, (size_t)a->w * a->h) != 0) { hk_fail("hdfimport-run-independent", "%s: pixels of image %d differ between the file imported alone and in the run", what, p); ok = 0; }
                    else if (a->ispal != b->ispal || (a->ispal && memcmp(a->pal, b->pal, 768) != 0)) { hk_fail("hdfimport-run-independent", "%s: palette of image %d differs between the file imported alone and in the run", what, p); ok = 0; }
                }
                at += n1;
                imp_free_images(im1, n1);
            }
            if (!getenv("HK_KEEP")) unlink(one);
        }
        if (ok && at != nim) hk_fail("hdfimport-run-independent", "the run has %d images, its %d input files imported one by one give %d", nim, nf, at);
        hk_stat("import_run_vs_alone", 1);
    }
    imp_free_images(im, nim);
done:
    if (!getenv("HK_KEEP")) {
        char pth[800];
        for (i = 0; i < nf; i++) { snprintf(pth, sizeof pth, "%s/%s", hk_tmpdir, fs[i].name); unlink(pth); }
        snprintf(pth, sizeof pth, "%s/%s", hk_tmpdir, palname); unlink(pth);
        unlink(out); unlink(log);
    }
}

static void run_case(int k)
{
    int i;
    for (i = 0; i < 6; i++) tie_adiff(k);
    switch (k % 4) {
        case 0: tie_hdiff(k); tie_dumpcell(k); oracle_import_run(k); break;
        case 1: oracle_mutations(k); break;
        case 2: oracle_dumps(k); break;
        default: tie_import(k); tie_hdiff(k); oracle_import_run(k); break;
    }
}

int main(int argc, char **argv)
{
    char self[700];
    ssize_t n = readlink("/proc/self/exe", self, sizeof self - 1);
    if (n > 0) { self[n] = 0; snprintf(bindir, sizeof bindir, "%s", dirname(self)); }
    else snprintf(bindir, sizeof bindir, "%s", dirname(strdup(argv[0])));
    if (getenv("HK_BINDIR")) snprintf(bindir, sizeof bindir, "%s", getenv("HK_BINDIR"));
    verbose = getenv("HK_VERBOSE") != NULL;
    return hk_main(argc, argv, "tools");
}
