/* e_tools - Tie-B engine for C19 (hdiff, hdp dump commands, hdfimport).
 *
 * Model ties (h4model engine `tools`):
 *   T tools adiff <type> <tl8> <pr8> <maxerr> <vals1> <vals2>  => <n_diff> <lines printed>
 *        the REAL array_diff of hdiff_array.c (compiled into this engine), stdout captured;
 *        integer types: stored values; floating-point types: values and limits in eighths.
 *   T tools hdiff <type> <tl8> <pr8> <maxerr> <vals1> <vals2>  => <exit status> <lines printed>
 *        the real hdiff BINARY on two files holding one dataset "d" each.
 *   T tools match <names1> <names2>                            => <name>/<in1><in2> ...
 *        object lists and match table as printed by `hdiff -b` on two generated files.
 *   T tools dumpcell <dims> <k>                                => coordinates of the k-th value printed by hdp dumpsds -d
 *   T tools import_shape <nplanes> <nrows> <ncols>             => shape of the SDS hdfimport creates | fail
 * Implementation oracles (no model): hdiff F F = 0; single-point mutations F' (one element of one SDS / Vdata / image,
 * one SDS / dimension / image / vdata / vdata-field / vgroup / SD-file / GR-file attribute value, one added object)
 * => hdiff F F' and hdiff F' F exit 1; the numbers printed by
 * hdp dumpsds / dumpvd / dumpgr -d equal what SDreaddata / VSread / GRreadimage return; hdfimport output values equal
 * the numeric input (text and binary, ranks 2 and 3).
 */
#include "toolgen.h"
#include <sys/wait.h>
#include <fcntl.h>
#include <libgen.h>
#include <math.h>

#define main hdiff_array_unused_main
#include "/repo/mfhdf/hdiff/hdiff_array.c"
#undef main

static char bindir[700];
static int  verbose;

static int run_tool(const char *tool, char **args, int nargs, const char *log)
{
    char  exe[800];
    char *argv[64];
    int   i, st;
    pid_t pid;
    snprintf(exe, sizeof exe, "%s/bin/%s", bindir, tool);
    argv[0] = exe;
    for (i = 0; i < nargs && i < 60; i++) argv[i + 1] = args[i];
    argv[nargs + 1] = NULL;
    fflush(stdout);
    pid = fork();
    if (pid == 0) {
        int fd = open(log, O_WRONLY | O_CREAT | O_TRUNC, 0644);
        if (fd >= 0) { dup2(fd, 1); dup2(fd, 2); close(fd); }
        setenv("ASAN_OPTIONS", "detect_leaks=0:abort_on_error=0:exitcode=99", 1);
        setenv("UBSAN_OPTIONS", "print_stacktrace=1:exitcode=98", 1);
        execv(exe, argv);
        _exit(127);
    }
    if (waitpid(pid, &st, 0) < 0) return 2000;
    if (WIFSIGNALED(st)) return 1000 + WTERMSIG(st);
    return WEXITSTATUS(st);
}

static void crash_oracle(int rc, const char *log, const char *tool, const char *what)
{
    char  line[400], key[160], kind[64] = "", fn[64] = "";
    FILE *f = fopen(log, "r");
    if (f) {
        while (fgets(line, sizeof line, f)) {
            char *p;
            if (!kind[0] && (p = strstr(line, "ERROR: AddressSanitizer: "))) sscanf(p + 25, "%60s", kind);
            if (!kind[0] && (p = strstr(line, "runtime error: "))) snprintf(kind, sizeof kind, "ubsan");
            if (kind[0] && !fn[0] && strstr(line, "/repo/") && (p = strstr(line, " in "))) sscanf(p + 4, "%60s", fn);
        }
        fclose(f);
    }
    if (kind[0]) snprintf(key, sizeof key, "sanitizer:%s:%s:%s", tool, kind, fn[0] ? fn : "?");
    else snprintf(key, sizeof key, "%s-crash:rc=%d", tool, rc);
    hk_fail(key, "%s", what);
}

/* ------------------------------------------------------------------------------------------- values */

typedef struct { const char *name; int32 nt; int bits; int sgn; int flt; } ty_t;
static const ty_t TYS[] = {
    {"i8", DFNT_INT8, 8, 1, 0}, {"u8", DFNT_UINT8, 8, 0, 0}, {"i16", DFNT_INT16, 16, 1, 0}, {"u16", DFNT_UINT16, 16, 0, 0},
    {"i32", DFNT_INT32, 32, 1, 0}, {"u32", DFNT_UINT32, 32, 0, 0}, {"f32", DFNT_FLOAT32, 32, 1, 1}, {"f64", DFNT_FLOAT64, 64, 1, 1}};
#define NTYS 8

/* a random value of the type, as the integer the T line carries (floats: eighths) */
static long rnd_val(const ty_t *t, int rel)
{
    long lo, hi;
    if (t->flt) { lo = -(1L << 14); hi = 1L << 14; }
    else if (t->bits == 8) { lo = t->sgn ? -128 : 0; hi = t->sgn ? 127 : 255; }
    else if (t->bits == 16) { lo = t->sgn ? -32768 : 0; hi = t->sgn ? 32767 : 65535; }
    else { lo = t->sgn ? -(1L << 31) : 0; hi = t->sgn ? (1L << 31) - 1 : (1L << 32) - 1; } /* i4_diff saturates (64e275a) */
    if (rel && t->bits > 16) { lo = t->sgn ? -(1L << 14) : 0; hi = 1L << 14; } /* PER: (double)(B - A) must not overflow, exact ratio */
    switch ((int)hk_range(0, 5)) {
        case 0: return lo;
        case 1: return hi;
        case 2: return 0 >= lo ? 0 : lo;
        case 3: return hk_range(lo, hi);
        default: { long v = hk_range(-20, 20); return v < lo ? lo : v > hi ? hi : v; }
    }
}
static long near_val(const ty_t *t, long a, int rel)
{
    long lo, hi, v;
    if (t->flt) { lo = -(1L << 14); hi = 1L << 14; }
    else if (t->bits == 8) { lo = t->sgn ? -128 : 0; hi = t->sgn ? 127 : 255; }
    else if (t->bits == 16) { lo = t->sgn ? -32768 : 0; hi = t->sgn ? 32767 : 65535; }
    else { lo = t->sgn ? -(1L << 31) : 0; hi = t->sgn ? (1L << 31) - 1 : (1L << 32) - 1; }
    if (rel && t->bits > 16) { lo = t->sgn ? -(1L << 14) : 0; hi = 1L << 14; }
    switch ((int)hk_range(0, 6)) {
        case 0: case 1: return a;
        case 2: v = a + hk_range(-3, 3); break;
        case 3: v = a + (hk_chance(50) ? 1 : -1) * hk_range(120, 140); break;      /* around the int8 wrap of the difference */
        case 4: v = a + (hk_chance(50) ? 1 : -1) * hk_range(32760, 32775); break;  /* around the int16 wrap */
        case 5: v = a * 2; break;
        default: return rnd_val(t, rel);
    }
    return v < lo ? lo : v > hi ? hi : v;
}
static void put_val(const ty_t *t, void *buf, int i, long v)
{
    switch (t->nt) {
        case DFNT_INT8: ((int8 *)buf)[i] = (int8)v; break;
        case DFNT_UINT8: ((uint8 *)buf)[i] = (uint8)v; break;
        case DFNT_INT16: ((int16 *)buf)[i] = (int16)v; break;
        case DFNT_UINT16: ((uint16 *)buf)[i] = (uint16)v; break;
        case DFNT_INT32: ((int32 *)buf)[i] = (int32)v; break;
        case DFNT_UINT32: ((uint32 *)buf)[i] = (uint32)v; break;
        case DFNT_FLOAT32: ((float32 *)buf)[i] = (float32)v / 8.0f; break;
        case DFNT_FLOAT64: ((float64 *)buf)[i] = (float64)v / 8.0; break;
    }
}

typedef struct { int tl8, pr8; long maxerr; int has_e; } dopt_t;
static void rnd_opts(dopt_t *o, int n)
{
    static const int TL[] = {0, 0, 4, 8, 12, 16, 20, 24, 40, 128, 1016, 1024, 1032, 262136};
    static const int PR[] = {1, 2, 4, 8, 12, 16, 80};
    int m = (int)hk_range(0, 9);
    o->tl8 = o->pr8 = 0; o->has_e = 0; o->maxerr = n;
    if (m >= 5 && m <= 7) o->tl8 = HK_PICK(TL);
    if (m >= 7) o->pr8 = HK_PICK(PR);
    if (hk_chance(35)) { o->has_e = 1; o->maxerr = hk_chance(50) ? hk_range(0, 3) : hk_range(0, n + 2); }
}

static void print_vals(const long *v, int n)
{
    int i;
    if (n == 0) { printf("-"); return; }
    for (i = 0; i < n; i++) printf("%s%ld", i ? "," : "", v[i]);
}

static int count_pos_lines(const char *path)
{
    char  line[600];
    FILE *f = fopen(path, "r");
    int   n = 0;
    if (!f) return -1;
    while (fgets(line, sizeof line, f)) if (line[0] == '[' && line[1] == ' ') n++;
    fclose(f);
    return n;
}

/* ------------------------------------------------------------------------------------------- A: array_diff in process */

static void tie_adiff(int k)
{
    const ty_t *t = &TYS[hk_range(0, NTYS - 1)];
    int    n = (int)hk_range(1, 10), i, saved, fd, printed;
    long   v1[16], v2[16];
    double b1[16], b2[16]; /* aligned storage for any type */
    dopt_t o;
    int32  dims[1];
    uint32 nd;
    char   cap[700];
    rnd_opts(&o, n);
    for (i = 0; i < n; i++) { v1[i] = rnd_val(t, o.pr8 != 0); v2[i] = near_val(t, v1[i], o.pr8 != 0); put_val(t, b1, i, v1[i]); put_val(t, b2, i, v2[i]); }
    dims[0] = n;
    snprintf(cap, sizeof cap, "%s", hk_tmp("cap")); snprintf(cap + strlen(cap), 32, "_%d.txt", k);
    fflush(stdout);
    saved = dup(1); fd = open(cap, O_WRONLY | O_CREAT | O_TRUNC, 0644); dup2(fd, 1); close(fd);
    nd = array_diff(b1, b2, (uint32)n, "a", "b", 1, dims, t->nt, (float32)o.tl8 / 8.0f, (float32)o.pr8 / 8.0f, (uint32)o.maxerr, 0, NULL, NULL);
    fflush(stdout); dup2(saved, 1); close(saved);
    printed = count_pos_lines(cap);
    unlink(cap);
    printf("T tools adiff %s %d %d %ld ", t->name, o.tl8, o.pr8, o.maxerr); print_vals(v1, n); printf(" "); print_vals(v2, n);
    printf(" => %u %d\n", nd, printed);
}

/* ------------------------------------------------------------------------------------------- B: the hdiff binary */

static int write_one(const char *path, const ty_t *t, const long *v, int n)
{
    int32  sd = SDstart(path, DFACC_CREATE), id, dims[1], st[1] = {0};
    double buf[16];
    int    i;
    if (sd == FAIL) return -1;
    dims[0] = n;
    id = SDcreate(sd, "d", t->nt, 1, dims);
    for (i = 0; i < n; i++) put_val(t, buf, i, v[i]);
    if (SDwritedata(id, st, NULL, dims, buf) == FAIL) return -1;
    SDendaccess(id);
    return SDend(sd) == FAIL ? -1 : 0;
}

static void eighths(char *out, int v8) { sprintf(out, "%d.%03d", v8 / 8, (v8 % 8) * 125); }

static void tie_hdiff(int k)
{
    const ty_t *t = &TYS[hk_range(0, NTYS - 1)];
    int    n = (int)hk_range(1, 8), i, rc, na = 0;
    long   v1[16], v2[16];
    dopt_t o;
    char   f1[700], f2[700], log[700], a1[32], a2[32], a3[32];
    char  *av[12];
    rnd_opts(&o, n);
    for (i = 0; i < n; i++) { v1[i] = rnd_val(t, o.pr8 != 0); v2[i] = near_val(t, v1[i], o.pr8 != 0); }
    snprintf(f1, sizeof f1, "%s", hk_tmp("h1")); snprintf(f1 + strlen(f1), 32, "_%d.hdf", k);
    snprintf(f2, sizeof f2, "%s", hk_tmp("h2")); snprintf(f2 + strlen(f2), 32, "_%d.hdf", k);
    snprintf(log, sizeof log, "%s", hk_tmp("hl")); snprintf(log + strlen(log), 32, "_%d.txt", k);
    if (write_one(f1, t, v1, n) || write_one(f2, t, v2, n)) { hk_fail("generator", "write_one failed"); return; }
    if (o.tl8) { eighths(a1, o.tl8); av[na++] = "-t"; av[na++] = a1; }
    if (o.pr8) { eighths(a2, o.pr8); av[na++] = "-p"; av[na++] = a2; }
    if (o.has_e) { sprintf(a3, "%ld", o.maxerr); av[na++] = "-e"; av[na++] = a3; }
    av[na++] = f1; av[na++] = f2;
    rc = run_tool("hdiff", av, na, log);
    if (rc >= 98 && rc != 255) { crash_oracle(rc, log, "hdiff", "hdiff on two one-dataset files"); }
    else {
        printf("T tools hdiff %s %d %d %ld ", t->name, o.tl8, o.pr8, o.maxerr); print_vals(v1, n); printf(" "); print_vals(v2, n);
        printf(" => %d %d\n", rc, count_pos_lines(log));
    }
    if (!getenv("HK_KEEP")) { unlink(f1); unlink(f2); unlink(log); }
}

/* ------------------------------------------------------------------------------------------- C: match table */

static int parse_b_output(const char *log, char l1[][120], int *n1, char l2[][120], int *n2, char mt[][140], int *nm)
{
    char  line[600];
    FILE *f = fopen(log, "r");
    int   sect = 0; /* 1 file1 list, 2 file2 list, 3 match table */
    *n1 = *n2 = *nm = 0;
    if (!f) return -1;
    while (fgets(line, sizeof line, f)) {
        size_t len = strlen(line);
        while (len && (line[len - 1] == '\n' || line[len - 1] == ' ')) line[--len] = 0;
        if (strncmp(line, "file 1 ", 7) == 0) { sect = 1; continue; }
        if (strncmp(line, "file 2 ", 7) == 0) { sect = 2; continue; }
        if (strncmp(line, "file1     file2", 15) == 0) { sect = 3; continue; }
        if (line[0] == '-') continue;
        if (len == 0) { if (sect == 3) break; continue; }
        if ((sect == 1 || sect == 2) && len > 23) {
            if (sect == 1 && *n1 < 60) snprintf(l1[(*n1)++], 120, "%s", line + 23);
            if (sect == 2 && *n2 < 60) snprintf(l2[(*n2)++], 120, "%s", line + 23);
        }
        else if (sect == 3 && len > 16 && *nm < 120) {
            snprintf(mt[(*nm)++], 140, "%c%c%s", line[4] == 'x' ? '1' : '0', line[11] == 'x' ? '1' : '0', line + 16);
        }
    }
    fclose(f);
    return 0;
}

static void hexs(const char *s) { hk_hex(s, strlen(s)); }

static void tie_match(const char *fa, const char *fb, const char *log)
{
    static char l1[60][120], l2[60][120], mt[120][140];
    int   n1, n2, nm, i, rc;
    char *av[4];
    av[0] = "-b"; av[1] = (char *)fa; av[2] = (char *)fb;
    rc = run_tool("hdiff", av, 3, log);
    if (rc >= 98 && rc != 255) { crash_oracle(rc, log, "hdiff", "hdiff -b"); return; }
    if (parse_b_output(log, l1, &n1, l2, &n2, mt, &nm)) return;
    printf("T tools match ");
    if (!n1) printf("-"); for (i = 0; i < n1; i++) { if (i) printf(","); hexs(l1[i]); }
    printf(" ");
    if (!n2) printf("-"); for (i = 0; i < n2; i++) { if (i) printf(","); hexs(l2[i]); }
    printf(" =>");
    if (!nm) printf(" -");
    for (i = 0; i < nm; i++) { printf(" "); hexs(mt[i] + 2); printf("/%c%c", mt[i][0], mt[i][1]); }
    printf("\n");
}

/* ------------------------------------------------------------------------------------------- D: mutations */

static int copy_file(const char *a, const char *b)
{
    char  buf[65536]; size_t n;
    FILE *fa = fopen(a, "rb"), *fb = fopen(b, "wb");
    if (!fa || !fb) { if (fa) fclose(fa); if (fb) fclose(fb); return -1; }
    while ((n = fread(buf, 1, sizeof buf, fa)) > 0) fwrite(buf, 1, n, fb);
    fclose(fa); fclose(fb);
    return 0;
}

/* flip one value: returns a description, or NULL when this spec has no such object */
static const char *mutate(const char *path, tg_spec_t *s, int kind, char *desc, size_t cap)
{
    int i;
    switch (kind) {
        case 0: { /* one element of one non-empty numeric SDS */
            int cand[TG_MAXSDS], nc = 0;
            for (i = 0; i < s->nsds; i++) if (!s->sds[i].empty && tg_nelem(s->sds[i].rank, s->sds[i].dims) > 0 && s->sds[i].lay.comp == 0 && !s->sds[i].lay.chunked) cand[nc++] = i;
            if (!nc) return NULL;
            {
                tg_sds_t *d = &s->sds[cand[hk_range(0, nc - 1)]];
                int32 sd = SDstart(path, DFACC_WRITE), id, st[TG_MAXRANK], ed[TG_MAXRANK];
                uint8 v[8] __attribute__((aligned(8)));
                int   j;
                id = SDselect(sd, SDnametoindex(sd, d->name));
                for (j = 0; j < d->rank; j++) { st[j] = (int32)hk_range(0, d->dims[j] - 1); ed[j] = 1; }
                SDreaddata(id, st, NULL, ed, v);
                /* a change hdiff's own arithmetic can see: +1 (or -1 at the top of the range) on the low byte / value */
                switch (d->nt) {
                    case DFNT_FLOAT32: *(float32 *)v += 1.0f; break;
                    case DFNT_FLOAT64: *(float64 *)v += 1.0; break;
                    case DFNT_INT16: case DFNT_UINT16: *(uint16 *)v ^= 1; break;
                    case DFNT_INT32: case DFNT_UINT32: *(uint32 *)v ^= 1; break;
                    default: v[0] ^= 1; break;
                }
                SDwritedata(id, st, NULL, ed, v);
                SDendaccess(id); SDend(sd);
                snprintf(desc, cap, "one element of SDS %s (type %d)", d->name, (int)d->nt);
                return "sds-element";
            }
        }
        case 1: { /* one attribute value of an SDS */
            for (i = 0; i < s->nsds; i++) if (s->sds[i].nattr > 0) break;
            if (i == s->nsds) return NULL;
            {
                tg_sds_t *d = &s->sds[i];
                int32 sd = SDstart(path, DFACC_WRITE), id = SDselect(sd, SDnametoindex(sd, d->name));
                tg_attr_t a = d->attr[0];
                a.data[0] ^= 1;
                SDsetattr(id, a.name, a.nt, a.count, a.data);
                SDendaccess(id); SDend(sd);
                snprintf(desc, cap, "attribute %s of SDS %s", a.name, d->name);
                return "sds-attribute";
            }
        }
        case 2: { /* one new dataset */
            int32 sd = SDstart(path, DFACC_WRITE), dims[1] = {3}, st[1] = {0}, id;
            int32 v[3] = {1, 2, 3};
            id = SDcreate(sd, "zz_added", DFNT_INT32, 1, dims);
            SDwritedata(id, st, NULL, dims, v);
            SDendaccess(id); SDend(sd);
            snprintf(desc, cap, "added SDS zz_added");
            return "added-object";
        }
        case 3: { /* one record of a vdata */
            for (i = 0; i < s->nvs; i++) if (s->vs[i].nrec > 0) break;
            if (i == s->nvs) return NULL;
            {
                tg_vs_t *v = &s->vs[i];
                int32 f = Hopen(path, DFACC_WRITE, 0), id; uint8 rec[256] = {0};
                Vstart(f);
                id = VSattach(f, VSfind(f, v->name), "w");
                VSsetfields(id, v->fname[0]);
                VSseek(id, (int32)hk_range(0, v->nrec - 1));
                { int32 pos = VSseek(id, 0); (void)pos; }
                VSread(id, rec, 1, FULL_INTERLACE);
                rec[0] ^= 1;
                VSseek(id, 0);
                VSwrite(id, rec, 1, FULL_INTERLACE);
                VSdetach(id); Vend(f); Hclose(f);
                snprintf(desc, cap, "first field of record 0 of vdata %s (type %d)", v->name, (int)v->ftype[0]);
                return "vdata-element";
            }
        }
        case 4: { /* one pixel of an image */
            int cand[TG_MAXGR], nc = 0;
            for (i = 0; i < s->ngr; i++) if (s->gr[i].lay.comp == 0 && !s->gr[i].lay.chunked) cand[nc++] = i;
            if (!nc) return NULL;
            {
                tg_gr_t *g = &s->gr[cand[hk_range(0, nc - 1)]];
                int32 f = Hopen(path, DFACC_WRITE, 0), gr = GRstart(f), id = GRselect(gr, GRnametoindex(gr, g->name));
                int32 st[2], ed[2] = {1, 1};
                uint8 px[64] __attribute__((aligned(8)));
                st[0] = (int32)hk_range(0, g->dims[0] - 1); st[1] = (int32)hk_range(0, g->dims[1] - 1);
                GRreadimage(id, st, NULL, ed, px);
                switch (g->nt) {
                    case DFNT_FLOAT32: *(float32 *)px += 1.0f; break;
                    case DFNT_FLOAT64: *(float64 *)px += 1.0; break;
                    default: px[0] ^= 1; break;
                }
                GRwriteimage(id, st, NULL, ed, px);
                GRendaccess(id); GRend(gr); Hclose(f);
                snprintf(desc, cap, "one pixel of image %s (type %d)", g->name, (int)g->nt);
                return "gr-element";
            }
        }
        case 5: { /* one value of a vdata-level attribute (VSsetattr, _HDF_VDATA) */
            for (i = 0; i < s->nvs; i++) if (s->vs[i].nattr > 0) break;
            if (i == s->nvs) return NULL;
            {
                tg_vs_t *v = &s->vs[i];
                int32 f = Hopen(path, DFACC_WRITE, 0), id; tg_attr_t a = v->attr[0];
                Vstart(f);
                id = VSattach(f, VSfind(f, v->name), "w");
                a.data[0] ^= 1;
                if (VSsetattr(id, _HDF_VDATA, a.name, a.nt, a.count, a.data) == FAIL) hk_fail("generator", "VSsetattr (mutation) failed");
                VSdetach(id); Vend(f); Hclose(f);
                snprintf(desc, cap, "vdata attribute %s of vdata %s (type %d)", a.name, v->name, (int)a.nt);
                return "vdata-attribute";
            }
        }
        case 6: { /* the attribute of one vdata field */
            int j = 0, found = 0;
            for (i = 0; i < s->nvs && !found; i++) for (j = 0; j < s->vs[i].nfld; j++) if (s->vs[i].fattr[j]) { found = 1; break; }
            if (!found) return NULL;
            i--;
            {
                tg_vs_t *v = &s->vs[i];
                int32 f = Hopen(path, DFACC_WRITE, 0), id, val = 2000 + j;
                Vstart(f);
                id = VSattach(f, VSfind(f, v->name), "w");
                if (VSsetattr(id, j, "fieldatt", DFNT_INT32, 1, &val) == FAIL) hk_fail("generator", "VSsetattr field (mutation) failed");
                VSdetach(id); Vend(f); Hclose(f);
                snprintf(desc, cap, "attribute fieldatt of field %d of vdata %s", j, v->name);
                return "vdata-field-attribute";
            }
        }
        case 7: { /* one value of a vgroup attribute */
            for (i = 0; i < s->nvg; i++) if (s->vg[i].nattr > 0) break;
            if (i == s->nvg) return NULL;
            {
                tg_vg_t *g = &s->vg[i];
                int32 f = Hopen(path, DFACC_WRITE, 0), id; tg_attr_t a = g->attr[0];
                Vstart(f);
                id = Vattach(f, Vfind(f, g->name), "w");
                a.data[0] ^= 1;
                if (Vsetattr(id, a.name, a.nt, a.count, a.data) == FAIL) hk_fail("generator", "Vsetattr (mutation) failed");
                Vdetach(id); Vend(f); Hclose(f);
                snprintf(desc, cap, "attribute %s of vgroup %s (type %d)", a.name, g->name, (int)a.nt);
                return "vgroup-attribute";
            }
        }
        case 8: { /* a dimension attribute of an SDS (SDsetdimstrs) */
            int j = 0, found = 0;
            for (i = 0; i < s->nsds && !found; i++) for (j = 0; j < s->sds[i].rank; j++) if (s->sds[i].dimattr[j]) { found = 1; break; }
            if (!found) return NULL;
            i--;
            {
                tg_sds_t *d = &s->sds[i];
                int32 sd = SDstart(path, DFACC_WRITE), id = SDselect(sd, SDnametoindex(sd, d->name)), dim = SDgetdimid(id, j);
                if (SDsetdimstrs(dim, "dlabeX", "dunit", "dformat") == FAIL) hk_fail("generator", "SDsetdimstrs (mutation) failed");
                SDendaccess(id); SDend(sd);
                snprintf(desc, cap, "label of dimension %d (%s) of SDS %s", j, d->dimname[j], d->name);
                return "sds-dim-attribute";
            }
        }
        case 9: { /* one value of an image attribute */
            for (i = 0; i < s->ngr; i++) if (s->gr[i].nattr > 0) break;
            if (i == s->ngr) return NULL;
            {
                tg_gr_t *g = &s->gr[i];
                int32 f = Hopen(path, DFACC_WRITE, 0), gr = GRstart(f), id = GRselect(gr, GRnametoindex(gr, g->name)); tg_attr_t a = g->attr[0];
                a.data[0] ^= 1;
                if (GRsetattr(id, a.name, a.nt, a.count, a.data) == FAIL) hk_fail("generator", "GRsetattr (mutation) failed");
                GRendaccess(id); GRend(gr); Hclose(f);
                snprintf(desc, cap, "attribute %s of image %s (type %d)", a.name, g->name, (int)a.nt);
                return "gr-attribute";
            }
        }
        case 10: { /* one value of an SD file attribute */
            if (s->nsdattr == 0) return NULL;
            {
                int32 sd = SDstart(path, DFACC_WRITE); tg_attr_t a = s->sdattr[0];
                a.data[0] ^= 1;
                if (SDsetattr(sd, a.name, a.nt, a.count, a.data) == FAIL) hk_fail("generator", "SDsetattr file (mutation) failed");
                SDend(sd);
                snprintf(desc, cap, "SD file attribute %s (type %d)", a.name, (int)a.nt);
                return "sd-file-attribute";
            }
        }
        case 11: { /* one value of a GR file attribute */
            if (s->ngrattr == 0) return NULL;
            {
                int32 f = Hopen(path, DFACC_WRITE, 0), gr = GRstart(f); tg_attr_t a = s->grattr[0];
                a.data[0] ^= 1;
                if (GRsetattr(gr, a.name, a.nt, a.count, a.data) == FAIL) hk_fail("generator", "GRsetattr file (mutation) failed");
                GRend(gr); Hclose(f);
                snprintf(desc, cap, "GR file attribute %s (type %d)", a.name, (int)a.nt);
                return "gr-file-attribute";
            }
        }
    }
    return NULL;
}
#define NMUT 12

static void oracle_mutations(int k)
{
    static tg_spec_t spec;
    char   f[700], g[700], log[700], desc[200];
    char  *av[3];
    int    rc, kind;
    const char *what;
    snprintf(f, sizeof f, "%s", hk_tmp("m")); snprintf(f + strlen(f), 32, "_%d.hdf", k);
    snprintf(g, sizeof g, "%s", hk_tmp("n")); snprintf(g + strlen(g), 32, "_%d.hdf", k);
    snprintf(log, sizeof log, "%s", hk_tmp("ml")); snprintf(log + strlen(log), 32, "_%d.txt", k);
    /* no annotations / palettes: hdiff does not look at them; NaN-free data by construction */
    tg_random(&spec, TG_F_VG | TG_F_VS | TG_F_GR | TG_F_DIMS | TG_F_LAYOUT);
    if (tg_write(f, &spec) != 0) { hk_fail("generator", "tg_write failed"); return; }
    av[0] = f; av[1] = f;
    rc = run_tool("hdiff", av, 2, log);
    if (rc >= 98 && rc != 255) { crash_oracle(rc, log, "hdiff", "hdiff F F"); goto done; }
    if (rc != 0) hk_fail("hdiff-not-reflexive", "hdiff F F exits %d", rc);
    hk_stat("reflexive", 1);
    tie_match(f, f, log);
    /* a random kind; when the file has no such object, the next applicable kind */
    kind = (int)hk_range(0, NMUT - 1);
    if (copy_file(f, g)) goto done;
    {
        int t;
        what = NULL;
        for (t = 0; t < NMUT && !what; t++) what = mutate(g, &spec, (kind + t) % NMUT, desc, sizeof desc);
    }
    if (!what) goto done;
    hk_stat(what, 1);
    {
        int r1, r2;
        av[0] = f; av[1] = g; r1 = run_tool("hdiff", av, 2, log);
        if (r1 >= 98 && r1 != 255) { crash_oracle(r1, log, "hdiff", desc); goto done; }
        av[0] = g; av[1] = f; r2 = run_tool("hdiff", av, 2, log);
        if (r2 >= 98 && r2 != 255) { crash_oracle(r2, log, "hdiff", desc); goto done; }
        if (r1 != 1 || r2 != 1) {
            char key[80];
            snprintf(key, sizeof key, "hdiff-misses:%s", what);
            hk_fail(key, "hdiff F F' = %d, hdiff F' F = %d after changing %s", r1, r2, desc);
        }
        tie_match(f, g, log);
    }
done:
    if (!getenv("HK_KEEP")) { unlink(f); unlink(g); unlink(log); }
}

/* ------------------------------------------------------------------------------------------- E: hdp dumps */

/* read all whitespace separated numeric tokens of a file */
static int read_numbers(const char *path, double *out, int cap, int *bad)
{
    FILE *f = fopen(path, "r");
    char  tok[128];
    int   n = 0;
    *bad = 0;
    if (!f) return -1;
    while (fscanf(f, "%120s", tok) == 1) {
        char *end;
        double v = strtod(tok, &end);
        if (*end) { (*bad)++; continue; }
        if (n < cap) out[n] = v;
        n++;
    }
    fclose(f);
    return n;
}

static double get_val(int32 nt, const void *buf, long i)
{
    switch (nt) {
        case DFNT_INT8: return ((const int8 *)buf)[i];
        case DFNT_UINT8: return ((const uint8 *)buf)[i];
        case DFNT_INT16: return ((const int16 *)buf)[i];
        case DFNT_UINT16: return ((const uint16 *)buf)[i];
        case DFNT_INT32: return ((const int32 *)buf)[i];
        case DFNT_UINT32: return ((const uint32 *)buf)[i];
        case DFNT_FLOAT32: return ((const float32 *)buf)[i];
        case DFNT_FLOAT64: return ((const float64 *)buf)[i];
    }
    return 0;
}

static int numeric_nt(int32 nt) { return nt != DFNT_CHAR8 && nt != DFNT_UCHAR8; }

static void cmp_numbers(const char *key, const char *what, const double *got, int ngot, int32 nt, const void *buf, long n)
{
    long i;
    if (ngot != n) { hk_fail(key, "%s: %d values printed, %ld in the object", what, ngot, n); return; }
    for (i = 0; i < n; i++) {
        double e = get_val(nt, buf, i);
        double tol = (nt == DFNT_FLOAT32 || nt == DFNT_FLOAT64) ? 5e-7 * (1 + fabs(e)) : 0;
        if (fabs(got[i] - e) > tol) { hk_fail(key, "%s: value %ld printed as %.9g, the API returns %.9g", what, i, got[i], e); return; }
    }
}

static void oracle_dumps(int k)
{
    static tg_spec_t spec;
    static double nums[70000];
    char   f[700], log[700], idx[16];
    char  *av[6];
    int    i, rc, bad, n;
    snprintf(f, sizeof f, "%s", hk_tmp("d")); snprintf(f + strlen(f), 32, "_%d.hdf", k);
    snprintf(log, sizeof log, "%s", hk_tmp("dl")); snprintf(log + strlen(log), 32, "_%d.txt", k);
    tg_random(&spec, TG_F_VG | TG_F_VS | TG_F_GR | TG_F_LAYOUT | TG_F_UNLIM);
    if (tg_write(f, &spec) != 0) { hk_fail("generator", "tg_write failed"); return; }
    /* datasets: by name */
    for (i = 0; i < spec.nsds; i++) {
        tg_sds_t *d = &spec.sds[i];
        long nel = tg_nelem(d->rank, d->dims);
        if (!numeric_nt(d->nt) || d->empty || nel == 0 || nel > 60000) continue;
        av[0] = "dumpsds"; av[1] = "-d"; av[2] = "-n"; av[3] = d->name; av[4] = f;
        rc = run_tool("hdp", av, 5, log);
        if (rc != 0) { if (rc >= 98) crash_oracle(rc, log, "hdp", "hdp dumpsds -d"); else hk_fail("hdp-dumpsds-fails", "hdp dumpsds -d -n %s exits %d", d->name, rc); continue; }
        n = read_numbers(log, nums, 70000, &bad);
        {
            int32 sd = SDstart(f, DFACC_READ), id = SDselect(sd, SDnametoindex(sd, d->name)), st[TG_MAXRANK] = {0};
            void *buf = calloc((size_t)nel + 1, 8);
            char  what[120];
            SDreaddata(id, st, NULL, d->dims, buf);
            snprintf(what, sizeof what, "dumpsds %s type %d rank %d", d->name, (int)d->nt, d->rank);
            if (bad) hk_fail("hdp-dumpsds-values", "%s: %d non-numeric tokens", what, bad);
            else cmp_numbers("hdp-dumpsds-values", what, nums, n, d->nt, buf, nel);
            free(buf); SDendaccess(id); SDend(sd);
            hk_stat("dumpsds", 1);
        }
    }
    /* images */
    for (i = 0; i < spec.ngr; i++) {
        tg_gr_t *g = &spec.gr[i];
        long nel = (long)g->dims[0] * g->dims[1] * g->ncomp;
        if (!numeric_nt(g->nt) || nel > 60000) continue;
        av[0] = "dumpgr"; av[1] = "-d"; av[2] = "-n"; av[3] = g->name; av[4] = f;
        rc = run_tool("hdp", av, 5, log);
        if (rc != 0) { if (rc >= 98) crash_oracle(rc, log, "hdp", "hdp dumpgr -d"); else hk_fail("hdp-dumpgr-fails", "hdp dumpgr -d -n %s exits %d", g->name, rc); continue; }
        n = read_numbers(log, nums, 70000, &bad);
        {
            int32 fid = Hopen(f, DFACC_READ, 0), gr = GRstart(fid), id = GRselect(gr, GRnametoindex(gr, g->name)), st[2] = {0, 0};
            void *buf = calloc((size_t)nel + 1, 8);
            char  what[120];
            GRreadimage(id, st, NULL, g->dims, buf);
            snprintf(what, sizeof what, "dumpgr %s type %d ncomp %d il %d", g->name, (int)g->nt, (int)g->ncomp, (int)g->il);
            if (bad) hk_fail("hdp-dumpgr-values", "%s: %d non-numeric tokens", what, bad);
            else cmp_numbers("hdp-dumpgr-values", what, nums, n, g->nt, buf, nel);
            free(buf); GRendaccess(id); GRend(gr); Hclose(fid);
            hk_stat("dumpgr", 1);
        }
    }
    /* vdatas with numeric fields only */
    for (i = 0; i < spec.nvs; i++) {
        tg_vs_t *v = &spec.vs[i];
        int j, allnum = 1; long per = 0;
        for (j = 0; j < v->nfld; j++) { if (!numeric_nt(v->ftype[j])) allnum = 0; per += v->forder[j]; }
        /* NO_INTERLACE storage: what a read returns depends on the transfer sizes (C07 vs_no_read_correct_iff); hdp reads
           record by record, so it prints other values than one whole VSread: reported under its own key */
        const char *vkey = (v->il == FULL_INTERLACE) ? "hdp-dumpvd-values" : "hdp-dumpvd-no-interlace";
        if (!allnum || v->nrec == 0) continue;
        av[0] = "dumpvd"; av[1] = "-d"; av[2] = "-n"; av[3] = v->name; av[4] = f;
        rc = run_tool("hdp", av, 5, log);
        if (rc != 0) { if (rc >= 98) crash_oracle(rc, log, "hdp", "hdp dumpvd -d"); else hk_fail("hdp-dumpvd-fails", "hdp dumpvd -d -n %s exits %d", v->name, rc); continue; }
        n = read_numbers(log, nums, 70000, &bad);
        {
            int32 fid = Hopen(f, DFACC_READ, 0), id; char flist[400] = ""; uint8 *buf; long q = 0, r; int ok = 1;
            Vstart(fid);
            id = VSattach(fid, VSfind(fid, v->name), "r");
            for (j = 0; j < v->nfld; j++) { if (j) strcat(flist, ","); strcat(flist, v->fname[j]); }
            VSsetfields(id, flist);
            buf = calloc((size_t)VSsizeof(id, flist) * v->nrec + 8, 1);
            VSread(id, buf, v->nrec, FULL_INTERLACE);
            if (bad || n != per * v->nrec) { hk_fail(vkey, "dumpvd %s: %d values (%d non numeric) printed, %ld expected", v->name, n, bad, per * v->nrec); ok = 0; }
            {
                uint8 *p = buf;
                for (r = 0; ok && r < v->nrec; r++)
                    for (j = 0; ok && j < v->nfld; j++) {
                        int e, sz = tg_ntsize(v->ftype[j]);
                        for (e = 0; e < v->forder[j]; e++, q++, p += sz) {
                            uint8 tmp[8] __attribute__((aligned(8)));
                            double ex;
                            memcpy(tmp, p, (size_t)sz);
                            ex = get_val(v->ftype[j], tmp, 0);
                            if (fabs(nums[q] - ex) > 5e-7 * (1 + fabs(ex))) { hk_fail(vkey, "dumpvd %s record %ld field %d[%d]: printed %.9g, VSread returns %.9g", v->name, r, j, e, nums[q], ex); ok = 0; break; }
                        }
                    }
            }
            free(buf); VSdetach(id); Vend(fid); Hclose(fid);
            hk_stat("dumpvd", 1);
        }
    }
    if (!getenv("HK_KEEP")) { unlink(f); unlink(log); }
}

/* dump order: dataset whose value encodes its coordinates */
static void tie_dumpcell(int k)
{
    char   f[700], log[700];
    char  *av[4];
    int    rank = (int)hk_range(1, 4), i, rc, bad, n;
    int32  dims[4], st[4] = {0}, sd, id;
    long   nel = 1, q;
    int32 *buf;
    static double nums[5000];
    for (i = 0; i < rank; i++) { dims[i] = (int32)hk_range(1, 6); nel *= dims[i]; }
    snprintf(f, sizeof f, "%s", hk_tmp("c")); snprintf(f + strlen(f), 32, "_%d.hdf", k);
    snprintf(log, sizeof log, "%s", hk_tmp("cl")); snprintf(log + strlen(log), 32, "_%d.txt", k);
    buf = calloc((size_t)nel, 4);
    for (q = 0; q < nel; q++) { long r = q, code = 0, mul = 1; int j; for (j = rank - 1; j >= 0; j--) { code += (r % dims[j]) * mul; mul *= 10; r /= dims[j]; } buf[q] = (int32)code; }
    sd = SDstart(f, DFACC_CREATE); id = SDcreate(sd, "c", DFNT_INT32, rank, dims);
    if (hk_chance(30)) { HDF_CHUNK_DEF c; for (i = 0; i < rank; i++) c.chunk_lengths[i] = (int32)hk_range(1, dims[i]); SDsetchunk(id, c, HDF_CHUNK); }
    SDwritedata(id, st, NULL, dims, buf); SDendaccess(id); SDend(sd);
    av[0] = "dumpsds"; av[1] = "-d"; av[2] = f;
    rc = run_tool("hdp", av, 3, log);
    n = read_numbers(log, nums, 5000, &bad);
    if (rc == 0 && !bad && n == nel) {
        for (q = 0; q < nel; q += (nel > 12 ? hk_range(1, nel / 6 + 1) : 1)) {
            long code = (long)nums[q]; int c[4], j;
            for (j = rank - 1; j >= 0; j--) { c[j] = (int)(code % 10); code /= 10; }
            printf("T tools dumpcell ");
            for (j = 0; j < rank; j++) printf("%s%d", j ? "," : "", (int)dims[j]);
            printf(" %ld => ", q);
            for (j = 0; j < rank; j++) printf("%s%d", j ? "," : "", c[j]);
            printf("\n");
        }
    }
    else hk_fail("hdp-dumpsds-values", "dump order probe: rc=%d, %d values (%d non numeric) for %ld elements", rc, n, bad, nel);
    free(buf);
    if (!getenv("HK_KEEP")) { unlink(f); unlink(log); }
}

/* ------------------------------------------------------------------------------------------- F: hdfimport */

static void tie_import(int k)
{
    char   in[700], out[700], log[700];
    char  *av[8];
    int    na = 0, rc, i;
    int    np = (int)(hk_chance(45) ? 1 : hk_range(2, 4)), nr = (int)hk_range(2, 6), nc = (int)hk_range(2, 6);
    int    fmt = (int)hk_range(0, 5); /* 0 TEXT->FP32, 1 TEXT->FP64, 2 TEXT->INT32, 3 TEXT->INT16, 4 FP32 binary, 5 IN32 binary */
    static const char *TYPES[] = {"FP32", "FP64", "INT32", "INT16"};
    long   nel, q;
    long   vals[200];
    FILE  *f;
    int32  expect_nt;
    if (hk_chance(6)) np = (int)hk_range(-1, 1);
    if (hk_chance(6)) nr = 1;
    if (hk_chance(6)) nc = (int)hk_range(0, 1);
    nel = (long)(np > 1 ? np : 1) * nr * nc;
    if (nel > 190 || nel < 0) nel = 0;
    snprintf(in, sizeof in, "%s", hk_tmp("imp")); snprintf(in + strlen(in), 32, "_%d.%s", k, fmt >= 4 ? "bin" : "txt");
    snprintf(out, sizeof out, "%s", hk_tmp("impo")); snprintf(out + strlen(out), 32, "_%d.hdf", k);
    snprintf(log, sizeof log, "%s", hk_tmp("impl")); snprintf(log + strlen(log), 32, "_%d.txt", k);
    for (q = 0; q < nel; q++) vals[q] = hk_range(-1000, 1000);
    f = fopen(in, fmt >= 4 ? "wb" : "w");
    if (!f) return;
    if (fmt < 4) {
        int isf = fmt < 2;
        fprintf(f, "TEXT\n%d %d %d\n", np, nr, nc);
        if (isf) fprintf(f, "%14.6E%14.6E\n", 0.0, 0.0); else fprintf(f, "%d %d\n", 0, 0);
        if (np > 1) { for (i = 0; i < np; i++) fprintf(f, isf ? "%14.6E" : " %d", isf ? (double)i : i); fprintf(f, "\n"); }
        for (i = 0; i < nr; i++) { if (isf) fprintf(f, "%14.6E", (double)i); else fprintf(f, " %d", i); } fprintf(f, "\n");
        for (i = 0; i < nc; i++) { if (isf) fprintf(f, "%14.6E", (double)i); else fprintf(f, " %d", i); } fprintf(f, "\n");
        for (q = 0; q < nel; q++) { if (isf) fprintf(f, "%14.6E", (double)vals[q] / 8.0); else fprintf(f, " %ld", vals[q]); if ((q + 1) % nc == 0) fprintf(f, "\n"); }
        expect_nt = fmt == 0 ? DFNT_FLOAT32 : fmt == 1 ? DFNT_FLOAT64 : fmt == 2 ? DFNT_INT32 : DFNT_INT16;
    }
    else {
        int32 h[4]; h[1] = np; h[2] = nr; h[3] = nc;
        memcpy(&h[0], fmt == 4 ? "FP32" : "IN32", 4);
        fwrite(h, 4, 4, f);
        if (fmt == 4) {
            float32 z = 0; fwrite(&z, 4, 1, f); fwrite(&z, 4, 1, f);
            if (np > 1) for (i = 0; i < np; i++) { float32 s = (float32)i; fwrite(&s, 4, 1, f); }
            for (i = 0; i < nr; i++) { float32 s = (float32)i; fwrite(&s, 4, 1, f); }
            for (i = 0; i < nc; i++) { float32 s = (float32)i; fwrite(&s, 4, 1, f); }
            for (q = 0; q < nel; q++) { float32 s = (float32)vals[q] / 8.0f; fwrite(&s, 4, 1, f); }
            expect_nt = DFNT_FLOAT32;
        }
        else {
            int32 z = 0; fwrite(&z, 4, 1, f); fwrite(&z, 4, 1, f);
            if (np > 1) for (i = 0; i < np; i++) { int32 s = i; fwrite(&s, 4, 1, f); }
            for (i = 0; i < nr; i++) { int32 s = i; fwrite(&s, 4, 1, f); }
            for (i = 0; i < nc; i++) { int32 s = i; fwrite(&s, 4, 1, f); }
            for (q = 0; q < nel; q++) { int32 s = (int32)vals[q]; fwrite(&s, 4, 1, f); }
            expect_nt = DFNT_INT32;
        }
    }
    fclose(f);
    unlink(out);
    av[na++] = in;
    if (fmt < 4) { av[na++] = "-t"; av[na++] = (char *)TYPES[fmt]; }
    av[na++] = "-o"; av[na++] = out;
    rc = run_tool("hdfimport", av, na, log);
    if (rc >= 98 && rc < 255) { crash_oracle(rc, log, "hdfimport", "hdfimport"); goto done; }
    printf("T tools import_shape %d %d %d => ", np, nr, nc);
    {
        int32 sd = (rc == 0) ? SDstart(out, DFACC_READ) : FAIL, nds = 0, na2;
        if (sd != FAIL) SDfileinfo(sd, &nds, &na2);
        if (sd == FAIL || nds == 0) { printf("fail\n"); if (sd != FAIL) SDend(sd); goto done; }
        {
            int32 id = SDselect(sd, 0), rank, dims[H4_MAX_VAR_DIMS], nt, nat, st[3] = {0, 0, 0};
            char  nm[H4_MAX_NC_NAME + 1];
            void *buf;
            long  tot = 1;
            SDgetinfo(id, nm, &rank, dims, &nt, &nat);
            for (i = 0; i < rank; i++) { printf("%s%d", i ? "," : "", (int)dims[i]); tot *= dims[i]; }
            printf("\n");
            if (nt != expect_nt) hk_fail("hdfimport-type", "format %d: SDS type %d, expected %d", fmt, (int)nt, (int)expect_nt);
            else if (tot == nel) {
                buf = calloc((size_t)tot + 1, 8);
                SDreaddata(id, st, NULL, dims, buf);
                for (q = 0; q < nel; q++) {
                    double e = (nt == DFNT_FLOAT32 || nt == DFNT_FLOAT64) ? (double)vals[q] / 8.0 : (double)vals[q];
                    double g = get_val(nt, buf, q);
                    if (fabs(g - e) > 1e-6 * (1 + fabs(e))) { hk_fail("hdfimport-values", "format %d dims %d,%d,%d: element %ld is %.9g, input %.9g", fmt, np, nr, nc, q, g, e); break; }
                }
                free(buf);
                hk_stat("import_values_compared", 1);
            }
            else hk_fail("hdfimport-values", "format %d: %ld elements in the SDS, %ld in the input", fmt, tot, nel);
            SDendaccess(id);
        }
        SDend(sd);
    }
done:
    if (!getenv("HK_KEEP")) { unlink(in); unlink(out); unlink(log); }
}

static void run_case(int k)
{
    int i;
    for (i = 0; i < 6; i++) tie_adiff(k);
    switch (k % 4) {
        case 0: tie_hdiff(k); tie_dumpcell(k); break;
        case 1: oracle_mutations(k); break;
        case 2: oracle_dumps(k); break;
        default: tie_import(k); tie_hdiff(k); break;
    }
}

int main(int argc, char **argv)
{
    char self[700];
    ssize_t n = readlink("/proc/self/exe", self, sizeof self - 1);
    if (n > 0) { self[n] = 0; snprintf(bindir, sizeof bindir, "%s", dirname(self)); }
    else snprintf(bindir, sizeof bindir, "%s", dirname(strdup(argv[0])));
    if (getenv("HK_BINDIR")) snprintf(bindir, sizeof bindir, "%s", getenv("HK_BINDIR"));
    verbose = getenv("HK_VERBOSE") != NULL;
    return hk_main(argc, argv, "tools");
}
