/* e_sd - Tie-B engine for C03 (SDS hyperslabs as an n-dimensional array).
 *
 * Two kinds of case:
 *  A (placement, tie to the Lean model): a fixed-size int32 dataset receives ONE SDwritedata of the counters
 *    1..n; the raw DFTAG_SD element is fetched with the H layer and the element offset of every counter is
 *    reported:   T sd offs <shape> <start> <stride> <count> => <offset of counter 1>,<offset of counter 2>,...
 *    h4model recomputes the list with `slabOffsets` (NCvario run decomposition / NCgenio odometer).
 *  B (array semantics, implementation oracle): random rank/shape/number type/fill settings, optional unlimited
 *    first dimension, random valid and invalid SDwritedata/SDreaddata (start/stride/count), SDend/SDstart
 *    cycles; a shadow n-d array in this file is the reference.  Failure keys: sd-read-data, sd-fill,
 *    sd-invalid-accepted, sd-valid-rejected, sd-extent, sd-modified-outside.
 *  C (unit level, every case): the static NCvcmaxcontig on random shape/origin/edges, see case_maxcontig.
 *    Failure keys: sd-maxcontig-range, sd-maxcontig-notwhole.
 *  D (shape and index arithmetic, every case): NC_var_shape / NC_varoffset / NCcoordck
 *    - on the NC_var of the datasets of the cases A and B as the library compiled them (lib_shape: `varshape`, `varoffset` lines), and
 *    - at unit level on hand-made NC / NC_var / NC_dim structures (case_shape_unit, case_coordck_unit: `varshape`, `varoffset`, `coordck`),
 *      including bad dimension ids, a misplaced unlimited dimension, sizes whose byte count wraps in `unsigned long`, non-HDF files.
 *    Failure keys: sd-shape-last-dsize, sd-shape-stride, sd-offset-range, sd-coordck-oracle.
 */
#include "mfhdf.h"
#include "hk.h"

/* the static NCvcmaxcontig is reached by #include of putget.c (resolved through -I<REPO>, vk.cc_harness); the library's own
 * putget.o is then not pulled from libmfhdf.a, so SDwritedata/SDreaddata below run the same text */
#define PUTGET_C "mfhdf/src/putget.c"
#include PUTGET_C

#define MAXRANK 5
#define MAXCELLS 20000

static const int32 TYPES[] = {DFNT_INT8, DFNT_UINT8, DFNT_CHAR8, DFNT_UCHAR8, DFNT_INT16, DFNT_UINT16,
                              DFNT_INT32, DFNT_UINT32, DFNT_FLOAT32, DFNT_FLOAT64};

static int esize(int32 nt) { return DFKNTsize((nt & ~(DFNT_LITEND | DFNT_NATIVE)) | DFNT_NATIVE); }

/* default fill value per type, as documented (netcdf.h FILL_*): written independently of the library's tables */
static void default_fill(int32 nt, uint8_t *out)
{
    int32 b = nt & ~(DFNT_LITEND | DFNT_NATIVE);
    switch (b) {
        case DFNT_INT8: case DFNT_UINT8: { int8_t v = -127; memcpy(out, &v, 1); break; }
        case DFNT_CHAR8: case DFNT_UCHAR8: { out[0] = 0; break; }
        case DFNT_INT16: case DFNT_UINT16: { int16_t v = -32767; memcpy(out, &v, 2); break; }
        case DFNT_INT32: case DFNT_UINT32: { int32_t v = -2147483647; memcpy(out, &v, 4); break; }
        case DFNT_FLOAT32: { float v = 9.9692099683868690e+36f; memcpy(out, &v, 4); break; }
        case DFNT_FLOAT64: { double v = 9.9692099683868690e+36; memcpy(out, &v, 8); break; }
    }
}

static void print_list(const int32 *v, int n)
{
    if (n == 0) { printf("-"); return; }
    for (int i = 0; i < n; i++) printf(i ? ",%d" : "%d", (int)v[i]);
}


/* ---------------------------------------------------------------- kind D: shape / dsizes / len / offsets as the library computes them */
static void print_ulist(const unsigned long *v, int n)
{
    if (n == 0) { printf("-"); return; }
    for (int i = 0; i < n; i++) printf(i ? ",%lu" : "%lu", v[i]);
}

static void print_llist(const long *v, int n)
{
    if (n == 0) { printf("-"); return; }
    for (int i = 0; i < n; i++) printf(i ? ",%ld" : "%ld", v[i]);
}

/* T sd varshape <sizes of all dimensions> <dimension ids of the variable> <xszof> <file type> <nc type> => <rank> <shape> <dsizes> <len> | fail */
static void print_varshape(const NC_array *dims, const NC_var *vp, int ret)
{
    int       nd = dims ? (int)dims->count : 0, rank = (int)vp->assoc->count;
    NC_dim **dp = dims ? (NC_dim **)dims->values : NULL;
    printf("T sd varshape ");
    if (nd == 0) printf("-");
    for (int i = 0; i < nd; i++) printf(i ? ",%d" : "%d", (int)dp[i]->size);
    printf(" ");
    if (rank == 0) printf("-");
    for (int i = 0; i < rank; i++) printf(i ? ",%d" : "%d", vp->assoc->values[i]);
    printf(" %d %d %d => ", (int)vp->HDFsize, vp->cdf->file_type, (int)vp->type);
    if (ret < 0) { printf("fail\n"); return; }
    printf("%d ", ret); print_ulist(vp->shape, rank); printf(" "); print_ulist(vp->dsizes, rank); printf(" %lu\n", vp->len);
}

/* T sd varoffset <file type> <shape> <xszof> <begin> <recsize> <coords> => <NC_varoffset> */
static void print_varoffset(NC *handle, NC_var *vp, const long *coords)
{
    int rank = (int)vp->assoc->count;
    unsigned long off = NC_varoffset(handle, vp, coords);
    printf("T sd varoffset %d ", handle->file_type); print_ulist(vp->shape, rank);
    printf(" %d %ld %lu ", (int)vp->HDFsize, vp->begin, handle->recsize); print_llist(coords, rank); printf(" => %lu\n", off);
}

/* the NC_var behind an SDS of an open SD file (cdfid in the top 12 bits of the SD id, variable index in the low 16 bits of the SDS id) */
static void lib_shape(int32 sd, int32 sds, const int32 *c1, const int32 *c2)
{
    NC *handle = NC_check_id((int)((sd >> 20) & 0xfff));
    NC_var *vp = handle ? NC_hlookupvar(handle, (int)(sds & 0xffff)) : NULL;
    if (vp == NULL || vp->assoc == NULL) { hk_fail("sd-novar", "no NC_var behind the SDS"); return; }
    int rank = (int)vp->assoc->count;
    print_varshape(handle->dims, vp, rank);
    if (rank == 0 || vp->dsizes == NULL) return;
    if (vp->dsizes[rank - 1] != (unsigned long)vp->HDFsize) hk_fail("sd-shape-last-dsize", "dsizes[%d] = %lu, element size %d", rank - 1, vp->dsizes[rank - 1], (int)vp->HDFsize);
    for (int i = 0; i + 1 < rank; i++)
        if (vp->dsizes[i] != vp->dsizes[i + 1] * vp->shape[i + 1]) hk_fail("sd-shape-stride", "dsizes[%d] = %lu is not dsizes[%d] * shape[%d]", i, vp->dsizes[i], i + 1, i + 1);
    const int32 *cs[2] = {c1, c2};
    for (int k = 0; k < 2; k++) {
        if (cs[k] == NULL) continue;
        long coords[MAXRANK]; int in = 1;
        for (int i = 0; i < rank; i++) { coords[i] = cs[k][i]; if (coords[i] < 0 || (!(i == 0 && vp->shape[0] == 0) && (unsigned long)coords[i] >= vp->shape[i])) in = 0; }
        if (!in) continue;
        print_varoffset(handle, vp, coords);
        if (vp->shape[0] != 0 && NC_varoffset(handle, vp, coords) >= vp->len) hk_fail("sd-offset-range", "offset %lu outside the variable (len %lu)", NC_varoffset(handle, vp, coords), vp->len);
    }
}

/* ---------------------------------------------------------------- case A: placement */
static void case_placement(int k)
{
    const char *path = hk_tmp("p.hdf");
    int rank = (int)hk_range(1, 4);
    int32 dims[MAXRANK], start[MAXRANK], stride[MAXRANK], count[MAXRANK];
    int strided = hk_chance(40), n = 1, total = 1;
    for (int i = 0; i < rank; i++) {
        dims[i] = (int32)hk_range(1, rank >= 4 ? 4 : 6);
        total *= dims[i];
    }
    for (int i = 0; i < rank; i++) {
        stride[i] = strided ? (int32)hk_range(1, 3) : 1;
        /* bias towards whole dimensions so the max-contiguous rule is exercised */
        if (hk_chance(45)) { start[i] = 0; stride[i] = hk_chance(70) ? 1 : stride[i]; count[i] = (dims[i] - 1) / stride[i] + 1; }
        else {
            start[i] = (int32)hk_range(0, dims[i] - 1);
            int maxc = (dims[i] - 1 - start[i]) / stride[i] + 1;
            count[i] = (int32)hk_range(1, maxc);
        }
        n *= count[i];
    }
    int32 *vals = malloc(sizeof(int32) * (size_t)n);
    for (int i = 0; i < n; i++) vals[i] = i + 1;
    int32 sd = SDstart(path, DFACC_CREATE);
    if (sd == FAIL) { hk_fail("sd-start", "create"); free(vals); return; }
    if (hk_chance(50)) SDsetfillmode(sd, SD_NOFILL);
    int32 sds = SDcreate(sd, "v", DFNT_INT32, rank, dims);
    { /* kind D: the compiled shape of this variable, the byte offsets of the first and of the last cell of the request */
        int32 last[MAXRANK];
        for (int i = 0; i < rank; i++) last[i] = start[i] + (count[i] - 1) * stride[i];
        lib_shape(sd, sds, start, last);
    }
    int all1 = 1; for (int i = 0; i < rank; i++) if (stride[i] != 1) all1 = 0;
    intn r = SDwritedata(sds, start, (all1 && hk_chance(50)) ? NULL : stride, count, vals);
    if (r == FAIL) hk_fail("sd-valid-rejected", "placement write rejected");
    SDendaccess(sds);
    SDend(sd);
    free(vals);
    if (r == FAIL) return;
    /* raw element */
    int32 fid = Hopen(path, DFACC_READ, 0);
    uint16 ft = 0, fr = 0; int32 off, len;
    if (fid == FAIL || Hfind(fid, DFTAG_SD, DFREF_WILDCARD, &ft, &fr, &off, &len, DF_FORWARD) == FAIL) { hk_fail("sd-noraw", "no DFTAG_SD element"); if (fid != FAIL) Hclose(fid); return; }
    uint8_t *raw = malloc((size_t)len + 4);
    if (Hgetelement(fid, DFTAG_SD, fr, raw) != len) { hk_fail("sd-noraw", "Hgetelement"); free(raw); Hclose(fid); return; }
    Hclose(fid);
    if (len > total * 4) hk_fail("sd-element-too-long", "element %d bytes > %d", (int)len, total * 4);
    int32 *where = malloc(sizeof(int32) * (size_t)n);
    for (int i = 0; i < n; i++) where[i] = -1;
    for (int o = 0; o + 4 <= len; o += 4) {
        int32 v = (int32)(((uint32)raw[o] << 24) | ((uint32)raw[o + 1] << 16) | ((uint32)raw[o + 2] << 8) | raw[o + 3]);
        if (v >= 1 && v <= n) { if (where[v - 1] != -1) hk_fail("sd-dup-value", "counter %d stored twice", v); where[v - 1] = o / 4; }
    }
    printf("T sd offs "); print_list(dims, rank); printf(" "); print_list(start, rank); printf(" "); print_list(stride, rank); printf(" "); print_list(count, rank);
    printf(" => "); print_list(where, n); printf("\n");
    free(where); free(raw);
    hk_stat(all1 ? "placement_unit" : "placement_strided", 1);
}

/* ---------------------------------------------------------------- case B: array semantics */
typedef struct {
    int rank, esz, unlimited, fillmode, userfill;
    long maxwritten;              /* highest row-major cell index written so far (-1 none) */
    int tail;                     /* the current request reaches beyond maxwritten (set by the caller before KEY) */
    int smallblocks;              /* SDsetblocksize was called: skipped records become linked-block holes in NOFILL mode */
    int nwrites, unsized;         /* successful writes so far; NOFILL: a read or a reopen preceded the first write */
    int32 nt, dims[MAXRANK];     /* dims[0] = allocated shadow extent for unlimited */
    int32 extent0;               /* current extent of dim 0 (unlimited) */
    uint8_t fill[8];
    uint8_t *data;               /* shadow, row-major over dims (dims[0]=cap for unlimited) */
    uint8_t *written;            /* per cell */
    long ncells;
} Shadow;

static long cell_index(const Shadow *s, const int32 *c)
{
    long ix = 0;
    for (int i = 0; i < s->rank; i++) ix = ix * s->dims[i] + c[i];
    return ix;
}

/* iterate a strided slab in row-major order; calls f(cell index, k-th value) */
static long slab_iter(const Shadow *s, const int32 *start, const int32 *stride, const int32 *count, long *out, long cap)
{
    int32 c[MAXRANK], i_[MAXRANK];
    long n = 0;
    if (s->rank == 0) { out[0] = 0; return 1; }
    for (int i = 0; i < s->rank; i++) { i_[i] = 0; c[i] = start[i]; }
    for (;;) {
        if (n < cap) out[n] = cell_index(s, c);
        n++;
        int d = s->rank - 1;
        while (d >= 0) {
            i_[d]++; c[d] = start[d] + i_[d] * stride[d];
            if (i_[d] < count[d]) break;
            i_[d] = 0; c[d] = start[d]; d--;
        }
        if (d < 0) break;
    }
    return n;
}

static int req_valid(const Shadow *s, const int32 *start, const int32 *stride, const int32 *count, int is_write)
{
    for (int i = 0; i < s->rank; i++) {
        if (start[i] < 0 || count[i] < 1 || stride[i] < 1) return 0;
        long last = (long)start[i] + (long)(count[i] - 1) * stride[i];
        long lim = (i == 0 && s->unlimited) ? (is_write ? s->dims[0] : s->extent0) : s->dims[i];
        if (last >= lim) return 0;
    }
    return 1;
}

/* NOFILL + unlimited: the stored element ends at the last cell written, so a partially written last record
   is not counted after reopen (known defect, keyed separately) */
static int partial_last_record(const Shadow *s)
{
    if (s->fillmode || !s->unlimited || s->extent0 <= 0) return 0;
    long reclen = s->ncells / s->dims[0];
    return s->written[(long)s->extent0 * reclen - 1] != 1;
}

/* Two known NOFILL-mode defects have several symptoms each; they are keyed by ROOT CAUSE so that each is listed once
   and nothing else can hide behind it (any other NOFILL failure keeps the plain key and alarms):
   :nofill-unsized  a fixed-size dataset whose first write did not directly follow SDcreate in the same session (a read or a
                    close/reopen came first) is never pre-sized (mfsd.c SDwritedata sets set_length only while var->created),
                    so writes at a non-zero offset fail (Hseek past the end) and reads of unwritten cells fail (short Hread);
   :nofill-unwritten-tail  a pre-sized fixed-size dataset is physically only as long as the last byte written until the file is
                    closed (Hsetlength moves f_end_off, the file is extended at close): an in-session read that reaches beyond
                    the last written cell fails (short fread) instead of returning undefined values;
   :nofill-linked-unwritten-tail  (C01/F26) the unwritten remainder of the last-allocated block of a linked-block element is
                    reserved (f_end_off moved) but not in the file until close, so an in-session read reaching into it fails
                    (short fread); reached here through NOFILL + unlimited + small SDsetblocksize.  (The former
                    :linked-block-hole defect, HLPread's short count for a missing block, is fixed by 9115bb2.)
   :nofill-partial-last-record  an unlimited dataset whose last record is only partially written ends at the last byte written:
                    reads of the rest of that record fail and the record is not counted after reopen. */
static const char *KEY(const Shadow *s, const char *base)
{
    static char b[4][96]; static int i = 0; char *o = b[i++ & 3];
    if (!s->fillmode && !s->unlimited && s->unsized) snprintf(o, 96, "%s:nofill-unsized", base);
    else if (!s->fillmode && !s->unlimited && s->tail) snprintf(o, 96, "%s:nofill-unwritten-tail", base);
    else if (partial_last_record(s)) snprintf(o, 96, "%s:nofill-partial-last-record", base);
    else if (!s->fillmode && s->unlimited && s->smallblocks) snprintf(o, 96, "%s:nofill-linked-unwritten-tail", base);
    else snprintf(o, 96, "%s", base);
    return o;
}

/* a rejected write may have modified cells INSIDE the requested region (the property only protects the outside):
   mark every in-bounds cell of the requested region as unknown (2) */
static void mark_unknown(Shadow *s, const int32 *start, const int32 *stride, const int32 *count)
{
    int32 c[MAXRANK];
    for (long ix = 0; ix < s->ncells; ix++) {
        long r = ix; int in = 1;
        for (int i = s->rank - 1; i >= 0; i--) { c[i] = (int32)(r % s->dims[i]); r /= s->dims[i]; }
        for (int i = 0; i < s->rank && in; i++) {
            int32 st = stride[i] >= 1 ? stride[i] : 1;
            if (c[i] < start[i]) in = 0;
            else if ((c[i] - start[i]) % st) in = 0;
            else if ((c[i] - start[i]) / st >= count[i]) in = 0;
        }
        if (in) s->written[ix] = 2;
    }
}

static void verify_all(const Shadow *s, int32 sds, const char *when)
{
    int32 start[MAXRANK], count[MAXRANK];
    long n = 1;
    for (int i = 0; i < s->rank; i++) { start[i] = 0; count[i] = (i == 0 && s->unlimited) ? s->extent0 : s->dims[i]; n *= count[i]; }
    if (n == 0) return;
    uint8_t *buf = malloc((size_t)n * s->esz + 8);
    memset(buf, 0x5A, (size_t)n * s->esz + 8);
    ((Shadow *)s)->tail = (s->maxwritten < s->ncells - 1) && strcmp(when, "after-reopen") != 0;
    if (SDreaddata(sds, start, NULL, count, buf) == FAIL) { hk_fail(KEY(s, "sd-valid-rejected"), "%s whole read failed", when); ((Shadow *)s)->tail = 0; free(buf); return; }
    ((Shadow *)s)->tail = 0;
    long *ix = malloc(sizeof(long) * (size_t)n);
    int32 ones[MAXRANK]; for (int i = 0; i < MAXRANK; i++) ones[i] = 1;
    slab_iter(s, start, ones, count, ix, n);
    for (long k = 0; k < n; k++) {
        const uint8_t *got = buf + k * s->esz;
        if (s->written[ix[k]] == 2) continue;
        if (s->written[ix[k]]) {
            if (memcmp(got, s->data + ix[k] * s->esz, (size_t)s->esz) != 0) { hk_fail(KEY(s, "sd-read-data"), "%s cell %ld differs (rank %d nt %d)", when, ix[k], s->rank, (int)s->nt); break; }
        }
        else if (s->fillmode) {
            if (memcmp(got, s->fill, (size_t)s->esz) != 0) { hk_fail("sd-fill", "%s unwritten cell %ld is not the fill value (rank %d nt %d userfill %d unlimited %d)", when, ix[k], s->rank, (int)s->nt, s->userfill, s->unlimited); break; }
        }
    }
    if (buf[n * s->esz] != 0x5A) hk_fail("sd-read-overrun", "%s", when);
    free(ix); free(buf);
}

static void case_array(int k)
{
    char pname[64]; snprintf(pname, sizeof pname, "a%d.hdf", k);
    const char *path = hk_tmp(pname);
    Shadow s; memset(&s, 0, sizeof s);
    s.rank = (int)hk_range(1, 4);
    if (hk_chance(3)) s.rank = 5;
    s.nt = HK_PICK(TYPES);
    if (hk_chance(25)) s.nt |= DFNT_LITEND; else if (hk_chance(15)) s.nt |= DFNT_NATIVE;
    s.esz = esize(s.nt);
    s.unlimited = hk_chance(30);
    s.fillmode = hk_chance(75);
    s.userfill = hk_chance(50);
    int32 cdims[MAXRANK];
    s.ncells = 1;
    for (int i = 0; i < s.rank; i++) { s.dims[i] = (int32)hk_range(1, s.rank >= 4 ? 4 : 7); cdims[i] = s.dims[i]; }
    if (s.unlimited) { s.dims[0] = (int32)hk_range(4, 12); cdims[0] = SD_UNLIMITED; s.extent0 = 0; }
    for (int i = 0; i < s.rank; i++) s.ncells *= s.dims[i];
    s.maxwritten = -1;
    s.data = calloc((size_t)s.ncells, (size_t)s.esz); s.written = calloc((size_t)s.ncells, 1);
    if (s.userfill) for (int i = 0; i < s.esz; i++) s.fill[i] = hk_byte(); else default_fill(s.nt, s.fill);

    int32 sd = SDstart(path, DFACC_CREATE);
    if (sd == FAIL) { hk_fail("sd-start", "create"); goto out; }
    if (!s.fillmode) SDsetfillmode(sd, SD_NOFILL);
    int32 sds = SDcreate(sd, "data", s.nt, s.rank, cdims);
    if (sds == FAIL) { hk_fail("sd-create", "rank %d nt %d", s.rank, (int)s.nt); SDend(sd); goto out; }
    if (s.userfill && SDsetfillvalue(sds, s.fill) == FAIL) hk_fail("sd-setfill", "nt %d", (int)s.nt);
    if (s.unlimited && hk_chance(40)) { SDsetblocksize(sds, (int32)hk_range(1, 200)); s.smallblocks = 1; }
    printf("INFO rank=%d nt=%d unlimited=%d fill=%d userfill=%d dims=", s.rank, (int)s.nt, s.unlimited, s.fillmode, s.userfill); print_list(s.dims, s.rank); printf("\n");
    { /* kind D: the compiled shape (unlimited first dimension = 0), the byte offset of the last cell of the shadow extent */
        int32 lastc[MAXRANK];
        for (int i = 0; i < s.rank; i++) lastc[i] = s.dims[i] - 1;
        lib_shape(sd, sds, lastc, NULL);
    }

    int nops = (int)hk_range(3, 14);
    long *ix = malloc(sizeof(long) * MAXCELLS);
    uint8_t *buf = malloc((size_t)MAXCELLS * 8 + 16);
    for (int op = 0; op < nops; op++) {
        int act = (int)hk_range(0, 9);
        if (act == 0) { /* close and reopen */
            SDendaccess(sds);
            if (SDend(sd) == FAIL) hk_fail(KEY(&s, "sd-end"), "SDend (mid-session)");
            sd = SDstart(path, DFACC_RDWR);
            if (sd == FAIL) { hk_fail("sd-restart", "SDstart RDWR"); goto out2; }
            sds = SDselect(sd, 0);
            if (!s.fillmode) SDsetfillmode(sd, SD_NOFILL);
            /* extent after reopen */
            int32 r_, d_[MAXRANK], nt_, na_; char nm[64];
            if (SDgetinfo(sds, nm, &r_, d_, &nt_, &na_) == FAIL) hk_fail("sd-getinfo", "after reopen");
            else if (s.unlimited && d_[0] != s.extent0) {
                if (partial_last_record(&s)) { hk_fail(KEY(&s, "sd-extent"), "after reopen extent %d expected %d", (int)d_[0], (int)s.extent0); SDendaccess(sds); SDend(sd); goto out2; }
                hk_fail("sd-extent", "after reopen extent %d expected %d", (int)d_[0], (int)s.extent0);
            }
            hk_stat("reopens", 1);
            s.maxwritten = s.ncells; /* the file was extended to its full length at close */
            if (s.nwrites == 0 && !s.fillmode) s.unsized = 1;
            continue;
        }
        int is_write = act < 6;
        int32 start[MAXRANK], stride[MAXRANK], count[MAXRANK];
        int want_invalid = hk_chance(18);
        int strided = hk_chance(35);
        long n = 1;
        for (int i = 0; i < s.rank; i++) {
            long lim = (i == 0 && s.unlimited) ? (is_write ? s.dims[0] : s.extent0) : s.dims[i];
            stride[i] = strided ? (int32)hk_range(1, 3) : 1;
            if (lim <= 0) { start[i] = 0; count[i] = 1; continue; } /* reading an empty unlimited var: invalid anyway */
            if (hk_chance(35)) { start[i] = 0; count[i] = (int32)((lim - 1) / stride[i] + 1); }
            else { start[i] = (int32)hk_range(0, lim - 1); count[i] = (int32)hk_range(1, (lim - 1 - start[i]) / stride[i] + 1); }
        }
        if (want_invalid) {
            int d = (int)hk_range(0, s.rank - 1);
            int kind = (int)hk_range(0, 3);
            if (d == 0 && s.unlimited && is_write) kind = 3; /* growth along the unlimited dimension is legal: only a negative start is invalid */
            switch (kind) {
                case 0: count[d] += (int32)hk_range(1, 3) + ((d == 0 && s.unlimited && is_write) ? s.dims[0] : (d == 0 && s.unlimited ? s.extent0 : s.dims[d])); break;
                case 1: start[d] = ((d == 0 && s.unlimited) ? (is_write ? s.dims[0] : s.extent0) : s.dims[d]) + (int32)hk_range(0, 2); break;
                case 2: if (strided || 1) { stride[d] = (int32)hk_range(2, 5); count[d] = ((d == 0 && s.unlimited) ? (is_write ? s.dims[0] : s.extent0) : s.dims[d]); strided = 1; } break;
                default: start[d] = -(int32)hk_range(1, 3); break;
            }
        }
        int valid = req_valid(&s, start, stride, count, is_write);
        /* keep the shadow's unlimited capacity as a hard cap for writes so the reference array can hold them */
        for (int i = 0; i < s.rank; i++) n *= (count[i] > 0 ? count[i] : 1);
        if (n > MAXCELLS) continue;
        int all1 = 1; for (int i = 0; i < s.rank; i++) if (stride[i] != 1) all1 = 0;
        int32 *sp = (all1 && hk_chance(50)) ? NULL : stride;
        printf("INFO op=%s valid=%d start=", is_write ? "write" : "read", valid); print_list(start, s.rank); printf(" stride="); print_list(stride, s.rank); printf(" count="); print_list(count, s.rank); printf(" sp=%s\n", sp ? "given" : "NULL");
        if (is_write) {
            for (long b = 0; b < n * s.esz; b++) buf[b] = hk_byte();
            intn r = SDwritedata(sds, start, sp, count, buf);
            hk_stat(valid ? "write_valid" : "write_invalid", 1);
            if (valid && r == FAIL) { hk_fail(KEY(&s, "sd-valid-rejected"), "write rank %d unl %d start %d,%d,%d stride %d,%d,%d count %d,%d,%d dims %d,%d,%d", s.rank, s.unlimited, start[0],start[1],start[2],stride[0],stride[1],stride[2],count[0],count[1],count[2],s.dims[0],s.dims[1],s.dims[2]); HEprint(stdout,0); mark_unknown(&s, start, stride, count); continue; }
            if (!valid) {
                if (r != FAIL) {
                    /* writing beyond the shadow capacity of an unlimited dimension is legal for the library: resync is impossible, stop the case */
                    int only_growth = 1;
                    for (int i = 0; i < s.rank; i++) {
                        long last = (long)start[i] + (long)(count[i] - 1) * stride[i];
                        if (start[i] < 0 || count[i] < 1 || stride[i] < 1) only_growth = 0;
                        else if (!(i == 0 && s.unlimited) && last >= s.dims[i]) only_growth = 0;
                    }
                    if (!only_growth) hk_fail("sd-invalid-accepted", "write start/stride/count outside the extent returned success (rank %d unlimited %d)", s.rank, s.unlimited);
                    break;
                }
                /* rejected: cells outside the requested region must be untouched (verified by later reads) */
                mark_unknown(&s, start, stride, count);
                if (s.unlimited) { int32 r_, d_[MAXRANK], nt_, na_; char nm[64]; if (SDgetinfo(sds, nm, &r_, d_, &nt_, &na_) != FAIL && d_[0] >= s.extent0 && d_[0] <= s.dims[0]) s.extent0 = d_[0]; }
                continue;
            }
            s.nwrites++;
            slab_iter(&s, start, stride, count, ix, MAXCELLS);
            for (long q = 0; q < n; q++) { memcpy(s.data + ix[q] * s.esz, buf + q * s.esz, (size_t)s.esz); s.written[ix[q]] = 1; if (ix[q] > s.maxwritten) s.maxwritten = ix[q]; }
            if (s.unlimited) { int32 e = start[0] + (count[0] - 1) * stride[0] + 1; if (e > s.extent0) s.extent0 = e; }
        }
        else {
            memset(buf, 0x5A, (size_t)n * s.esz + 8);
            intn r = SDreaddata(sds, start, sp, count, buf);
            hk_stat(valid ? "read_valid" : "read_invalid", 1);
            if (s.nwrites == 0 && !s.fillmode) s.unsized = 1;
            s.tail = 0;
            if (valid) { long nn = slab_iter(&s, start, stride, count, ix, MAXCELLS); for (long q = 0; q < nn && q < MAXCELLS; q++) if (ix[q] > s.maxwritten) s.tail = 1; }
            if (valid && r == FAIL) { hk_fail(KEY(&s, "sd-valid-rejected"), "read rank %d unlimited %d", s.rank, s.unlimited); continue; }
            if (!valid) { if (r != FAIL) hk_fail("sd-invalid-accepted", "read start/stride/count outside the extent returned success (rank %d unlimited %d extent0 %d)", s.rank, s.unlimited, (int)s.extent0); continue; }
            slab_iter(&s, start, stride, count, ix, MAXCELLS);
            for (long q = 0; q < n; q++) {
                const uint8_t *got = buf + q * s.esz;
                if (s.written[ix[q]] == 2) continue;
                if (s.written[ix[q]]) { if (memcmp(got, s.data + ix[q] * s.esz, (size_t)s.esz)) { hk_fail(KEY(&s, "sd-read-data"), "cell %ld differs (rank %d nt %d strided %d)", ix[q], s.rank, (int)s.nt, !all1); break; } }
                else if (s.fillmode && memcmp(got, s.fill, (size_t)s.esz)) { hk_fail("sd-fill", "unwritten cell %ld is not the fill value (rank %d nt %d userfill %d unlimited %d)", ix[q], s.rank, (int)s.nt, s.userfill, s.unlimited); break; }
            }
            if (buf[n * s.esz] != 0x5A) hk_fail("sd-read-overrun", "read wrote past its buffer");
        }
    }
    verify_all(&s, sds, "end-of-session");
    {
        int32 r_, d_[MAXRANK], nt_, na_; char nm[64];
        if (SDgetinfo(sds, nm, &r_, d_, &nt_, &na_) == FAIL) hk_fail("sd-getinfo", "in session");
        else if (s.unlimited && d_[0] != s.extent0) hk_fail(KEY(&s, "sd-extent"), "in-session extent %d expected %d", (int)d_[0], (int)s.extent0);
    }
    SDendaccess(sds);
    if (SDend(sd) == FAIL) hk_fail(KEY(&s, "sd-end"), "SDend");
    sd = SDstart(path, DFACC_READ);
    if (sd == FAIL) { hk_fail("sd-restart", "SDstart READ"); goto out2; }
    sds = SDselect(sd, 0);
    if (partial_last_record(&s)) {
        int32 r_, d_[MAXRANK], nt_, na_; char nm[64];
        if (SDgetinfo(sds, nm, &r_, d_, &nt_, &na_) != FAIL && d_[0] != s.extent0) {
            hk_fail(KEY(&s, "sd-extent"), "after reopen extent %d expected %d", (int)d_[0], (int)s.extent0);
            SDendaccess(sds); SDend(sd); goto out2;
        }
    }
    verify_all(&s, sds, "after-reopen");
    {
        uint8_t fv[8];
        if (s.userfill) { if (SDgetfillvalue(sds, fv) == FAIL || memcmp(fv, s.fill, (size_t)s.esz)) hk_fail("sd-getfill", "SDgetfillvalue after reopen"); }
    }
    SDendaccess(sds); SDend(sd);
out2:
    free(ix); free(buf);
out:
    unlink(path);
    free(s.data); free(s.written);
}

/* ---------------------------------------------------------------- case C: NCvcmaxcontig at unit level
 *   T sd maxcontig <shape> <origin> <edges> <recsize> <len> => <index into edges>|null
 * shape[0] = 0 is a record variable; origins are valid coordinates (what NCcoordck lets through); edges are whole, partial, empty or
 * too long by 1..3; now and then one dimension is moved up by 2^62 (unsigned long arithmetic).  h4model answers with `Slab.maxContig`
 * and also runs the function body TRANSLATED from the current putget.c (Tie A, function level) on the same arguments. */
static void print_ul(const unsigned long *v, int n)
{
    for (int i = 0; i < n; i++) printf(i ? ",%lu" : "%lu", v[i]);
}

static void case_maxcontig(void)
{
    int reps = (int)hk_range(1, 3);
    for (int rep = 0; rep < reps; rep++) {
        int rank = (int)hk_range(1, 5);
        unsigned long shape[MAXRANK];
        long origin[MAXRANK], edges[MAXRANK];
        int rec = hk_chance(30), bad = hk_chance(30) ? (int)hk_range(0, rank - 1) : -1, big = hk_chance(10) ? (int)hk_range(0, rank - 1) : -1;
        for (int i = 0; i < rank; i++) {
            shape[i] = (unsigned long)hk_range(1, 6);
            if (i == 0 && rec) { shape[0] = 0; origin[0] = hk_range(0, 5); edges[0] = hk_range(0, 4); continue; }
            if (hk_chance(50)) { origin[i] = 0; edges[i] = (long)shape[i]; }
            else {
                origin[i] = hk_range(0, (long)shape[i] - 1);
                edges[i] = hk_range(hk_chance(15) ? 0 : 1, (long)shape[i] - origin[i]);
            }
            if (i == bad) edges[i] = (long)shape[i] - origin[i] + hk_range(1, 3);
            if (i == big) { shape[i] += 1UL << 62; if (hk_chance(60)) edges[i] += 1L << 62; }
        }
        NC handle; NC_var var; NC_iarray assoc;
        memset(&handle, 0, sizeof handle); memset(&var, 0, sizeof var); memset(&assoc, 0, sizeof assoc);
        handle.recsize = (unsigned long)hk_range(0, 12);
        var.len = (unsigned long)hk_range(0, 12);
        var.shape = shape; var.assoc = &assoc; assoc.count = (unsigned)rank;
        const long *r = NCvcmaxcontig(&handle, &var, origin, edges);
        printf("T sd maxcontig "); print_ul(shape, rank); printf(" "); print_ul((unsigned long *)origin, rank); printf(" ");
        print_ul((unsigned long *)edges, rank); printf(" %lu %lu => ", handle.recsize, var.len);
        if (r == NULL) printf("null\n"); else printf("%ld\n", (long)(r - edges));
        /* implementation-side oracle: the answer is a pointer into edges (or one past it), at or after boundary, and everything
         * after it is taken whole */
        if (r != NULL) {
            long kx = (long)(r - edges);
            if (kx < 0 || kx > rank) hk_fail("sd-maxcontig-range", "index %ld rank %d", kx, rank);
            else for (int i = (int)kx + 1; i < rank; i++)
                if ((unsigned long)edges[i] != shape[i]) hk_fail("sd-maxcontig-notwhole", "index %ld: dimension %d is not taken whole", kx, i);
        }
        hk_stat(r == NULL ? "maxcontig_null" : "maxcontig_index", 1);
    }
}


/* ---------------------------------------------------------------- kind D at unit level: NC_var_shape + NC_varoffset on hand-made structures */
static void case_shape_unit(void)
{
    int reps = (int)hk_range(1, 3);
    for (int rep = 0; rep < reps; rep++) {
        int     nd = (int)hk_range(1, 6), rank = hk_chance(8) ? 0 : (int)hk_range(1, 5);
        NC_dim  dim[6]; NC_dim *dimp[6];
        int     ids[MAXRANK];
        int     big = hk_chance(12), unl = hk_chance(35) ? 0 : -1;
        memset(dim, 0, sizeof dim);
        for (int i = 0; i < nd; i++) {
            dim[i].size = (int32)hk_range(1, 6);
            if (big) dim[i].size = (int32)(hk_chance(50) ? hk_range(60000, 70000) : hk_range(2147483000L, 2147483647L));
            dimp[i] = &dim[i];
        }
        if (unl == 0) dim[0].size = NC_UNLIMITED;
        for (int i = 0; i < rank; i++) {
            ids[i] = (int)hk_range(unl == 0 && i > 0 && nd > 1 ? 1 : 0, nd - 1);
            if (i == 0 && unl == 0 && hk_chance(70)) ids[0] = 0;
        }
        if (rank > 0 && hk_chance(12)) { /* an invalid request: bad id, or the unlimited dimension at an index other than 0 */
            int k = (int)hk_range(0, rank - 1);
            switch ((int)hk_range(0, 2)) {
                case 0: ids[k] = -(int)hk_range(1, 3); break;
                case 1: ids[k] = nd + (int)hk_range(0, 2); break;
                default: if (unl == 0 && rank > 1) ids[(int)hk_range(1, rank - 1)] = 0; break;
            }
        }
        NC cdf; NC_var var; NC_iarray assoc; NC_array dims;
        memset(&cdf, 0, sizeof cdf); memset(&var, 0, sizeof var); memset(&assoc, 0, sizeof assoc); memset(&dims, 0, sizeof dims);
        cdf.file_type = hk_chance(60) ? HDF_FILE : netCDF_FILE;
        cdf.recsize = (unsigned long)hk_range(0, 5000);
        dims.count = (unsigned)nd; dims.values = (uint8_t *)dimp;
        assoc.count = (unsigned)rank; assoc.values = ids;
        var.assoc = &assoc; var.cdf = &cdf; var.shape = NULL; var.dsizes = NULL;
        var.type = (nc_type)hk_range(NC_BYTE, NC_DOUBLE);
        { static const int32 SZ[] = {1, 2, 4, 8}; var.HDFsize = HK_PICK(SZ); }
        var.len = 777; var.begin = hk_range(0, 4000);
        int ret = NC_var_shape(&var, &dims);
        print_varshape(&dims, &var, ret);
        hk_stat(ret < 0 ? "varshape_fail" : big ? "varshape_big" : "varshape_ok", 1);
        if (ret >= 1) {
            /* oracle: the last stride is the element size; each stride is the next one times the next extent (in unsigned long, as stored) */
            if (var.dsizes[rank - 1] != (unsigned long)var.HDFsize) hk_fail("sd-shape-last-dsize", "unit: dsizes[%d] = %lu, element size %d", rank - 1, var.dsizes[rank - 1], (int)var.HDFsize);
            for (int i = 0; i + 1 < rank; i++)
                if (var.dsizes[i] != var.dsizes[i + 1] * var.shape[i + 1]) hk_fail("sd-shape-stride", "unit: dsizes[%d]", i);
            int noff = (int)hk_range(1, 3);
            for (int q = 0; q < noff; q++) {
                long coords[MAXRANK];
                for (int i = 0; i < rank; i++) {
                    unsigned long ext = var.shape[i];
                    coords[i] = (i == 0 && ext == 0) ? hk_range(0, 9) : (ext > 6 ? hk_range(0, 6) : hk_range(0, (long)ext - 1));
                    if (hk_chance(5)) coords[i] += hk_range(1, 3); /* NC_varoffset itself does not check */
                }
                print_varoffset(&cdf, &var, coords);
            }
        }
        free(var.shape); free(var.dsizes);
    }
}

/* ---------------------------------------------------------------- kind D at unit level: NCcoordck on hand-made structures
 *   T sd coordck <file type> <x_op> <nc_API?> <flags> <vp numrecs> <handle numrecs> <shape> <coords> => <TRUE/FALSE> <vp numrecs> <handle numrecs> <flags>
 * The fill-on-extend I/O (Hwrite / NCfillrecord / xdr_numrecs) cannot run on a hand-made handle: NC_NOFILL is set and NC_NSYNC is clear
 * whenever the record dimension can grow, so that only the decisions and the record bookkeeping are exercised here (the fill path runs in kind B). */
static void case_coordck_unit(void)
{
    int reps = (int)hk_range(1, 4);
    for (int rep = 0; rep < reps; rep++) {
        int rank = (int)hk_range(1, 5), rec = hk_chance(45);
        unsigned long shape[MAXRANK]; long coords[MAXRANK];
        for (int i = 0; i < rank; i++) {
            shape[i] = (unsigned long)hk_range(1, 6);
            coords[i] = hk_range(0, (long)shape[i] - 1);
        }
        if (rec) { shape[0] = 0; coords[0] = hk_range(0, 8); }
        if (hk_chance(30)) {
            int k = (int)hk_range(0, rank - 1);
            switch ((int)hk_range(0, 2)) {
                case 0: coords[k] = -hk_range(1, 3); break;
                case 1: coords[k] = (long)shape[k] + hk_range(0, 2); break;
                default: coords[k] = (long)shape[k]; break;
            }
        }
        NC handle; NC_var var; NC_iarray assoc; NC_string name; XDR xdr; char nm[2] = "v";
        memset(&handle, 0, sizeof handle); memset(&var, 0, sizeof var); memset(&assoc, 0, sizeof assoc); memset(&name, 0, sizeof name); memset(&xdr, 0, sizeof xdr);
        handle.file_type = hk_chance(60) ? HDF_FILE : netCDF_FILE;
        handle.xdrs = &xdr; xdr.x_op = hk_chance(55) ? XDR_ENCODE : XDR_DECODE;
        handle.numrecs = (unsigned)hk_range(0, 8);
        handle.flags = NC_NOFILL | (hk_chance(30) ? NC_NDIRTY : 0) | (hk_chance(30) ? NC_RDWR : 0);
        if (!rec && hk_chance(50)) handle.flags = (hk_chance(50) ? NC_NSYNC : 0) | (hk_chance(50) ? NC_RDWR : 0); /* a fixed-size variable never reaches the I/O */
        var.assoc = &assoc; assoc.count = (unsigned)rank; var.shape = shape; var.name = &name; name.values = nm; name.len = 1; name.count = 2;
        var.numrecs = (int)hk_range(0, 6); var.aid = FAIL; var.HDFsize = 4; var.szof = 4; var.len = 4;
        const char *saved = cdf_routine_name;
        cdf_routine_name = hk_chance(50) ? "ncvarget" : "SDreaddata";
        int api = nc_API(cdf_routine_name);
        unsigned f0 = handle.flags, h0 = handle.numrecs; int v0 = var.numrecs;
        bool_t r = NCcoordck(&handle, &var, coords);
        cdf_routine_name = saved;
        printf("T sd coordck %d %d %d %u %d %u ", handle.file_type, (int)xdr.x_op, api, f0, v0, h0);
        print_ulist(shape, rank); printf(" "); print_llist(coords, rank);
        printf(" => %d %d %u %u\n", r ? 1 : 0, var.numrecs, handle.numrecs, handle.flags);
        /* implementation-side oracle: a coordinate outside a fixed extent is never accepted, an accepted request never shrinks a record count */
        for (int i = rec ? 1 : 0; i < rank; i++)
            if (r && (coords[i] < 0 || (unsigned long)coords[i] >= shape[i])) hk_fail("sd-coordck-oracle", "coordinate %d = %ld accepted (extent %lu)", i, coords[i], shape[i]);
        if (r && rec && coords[0] < 0) hk_fail("sd-coordck-oracle", "negative record index accepted");
        if (var.numrecs < v0 || handle.numrecs < h0) hk_fail("sd-coordck-oracle", "record count went down");
        hk_stat(r ? "coordck_true" : "coordck_false", 1);
    }
}

static void run_case(int k)
{
    if (k % 3 == 0) case_placement(k); else case_array(k);
    case_maxcontig(); /* after the older kinds: their random streams stay what they were */
    case_shape_unit();
    case_coordck_unit();
}

int main(int argc, char **argv) { extern int H4_ncopts; H4_ncopts = getenv("HK_DEBUG") ? 2 : 0; return hk_main(argc, argv, "sd"); }
