/* e_sd - Tie-B engine for C03 (SDS hyperslabs as an n-dimensional array).
 *
 * Two kinds of case:
 *  A (placement, tie to the Lean model): a fixed-size int32 dataset receives ONE SDwritedata of the counters
 *    1..n; the raw DFTAG_SD element is fetched with the H layer and the element offset of every counter is
 *    reported:   T sd offs <shape> <start> <stride> <count> => <offset of counter 1>,<offset of counter 2>,...
 *    h4model recomputes the list with `slabOffsets` (NCvario run decomposition / NCgenio odometer).
 *  B (array semantics, implementation oracle): random rank/shape/number type/fill settings, optional unlimited
 *    first dimension, random valid and invalid SDwritedata/SDreaddata (start/stride/count), SDend/SDstart
 *    cycles; a shadow n-d array in this file is the reference.  Failure keys: sd-read-data, sd-fill,
 *    sd-invalid-accepted, sd-valid-rejected, sd-extent, sd-modified-outside.
 *  C (unit level, every case): the static NCvcmaxcontig on random shape/origin/edges, see case_maxcontig.
 *    Failure keys: sd-maxcontig-range, sd-maxcontig-notwhole.
 *  D (shape and index arithmetic, every case): NC_var_shape / NC_varoffset / NCcoordck
 *    - on the NC_var of the datasets of the cases A and B as the library compiled them (lib_shape: `varshape`, `varoffset` lines), and
 *    - at unit level on hand-made NC / NC_var / NC_dim structures (case_shape_unit, case_coordck_unit: `varshape`, `varoffset`, `coordck`),
 *      including bad dimension ids, a misplaced unlimited dimension, sizes whose byte count wraps in `unsigned long`, non-HDF files.
 *    Failure keys: sd-shape-last-dsize, sd-shape-stride, sd-offset-range, sd-coordck-oracle.
 */
#include "mfhdf.h"
#include "hk.h"

/* the static NCvcmaxcontig is reached by #include of putget.c (resolved through -I<REPO>, vk.cc_harness); the library's own
 * putget.o is then not pulled from libmfhdf.a, so SDwritedata/SDreaddata below run the same text */
#define PUTGET_C "mfhdf/src/putget.c"

/* The text of putget.c is compiled with three of its callees renamed, so that kind E (below) can see and steer what the data path does
 * with its internal piece / buffer sizes:
 *   Hwrite     -> hk_Hwrite:     while `hw_on` is set every call is logged as (position of the access element before the call, length);
 *                                a call that sends one of the two conversion buffers is checked against that buffer (hk_piece_check below);
 *   DFKconvert -> hk_DFKconvert: every call is logged (source, destination, number of elements): the blocks in which a request is converted
 *                                must tile the caller's buffer (conv_tiles below);
 *   calloc     -> hk_calloc:     the only calloc of putget.c is SDIresizebuf's (the conversion buffers tBuf / tValues); a request above
 *                                `alloc_limit` bytes (when > 0) is refused, which drives the library into its "try half the size" loops. */
typedef struct { long pos, len; } HwRec;
#define HW_MAX 4096
static HwRec hw_log[HW_MAX];
static int   hw_on = 0, hw_n = 0, hw_lost = 0;
static const uint8_t *cv_ubuf = NULL, *cv_next = NULL;   /* the caller's buffer of the running SD call, the end of the conversion blocks so far */
static long  cv_nbytes = 0, cv_blocks = 0, cv_bad_block = -1, cv_bad_at = 0, cv_bad_want = 0, cv_bad_n = 0;
static long  alloc_limit = 0, alloc_refused = 0;
static int   cur_esz = 0;           /* element size of the data set of the running kind-E case (0 outside) */
static int   fill_not_whole = 0;    /* the running case has written a fill piece that is not a whole number of elements */
static const void *hk_piece_check(const void *data, int32 length);
static int32 hk_Hwrite(int32 aid, int32 length, const void *data)
{
    if (hw_on) {
        int32 posn = -1;
        Hinquire(aid, NULL, NULL, NULL, NULL, NULL, &posn, NULL, NULL);
        if (hw_n < HW_MAX) { hw_log[hw_n].pos = posn; hw_log[hw_n].len = length; hw_n++; } else hw_lost++;
    }
    const void *safe = cur_esz ? hk_piece_check(data, length) : NULL;
    int32 r = (Hwrite)(aid, length, safe ? safe : data);
    if (safe) free((void *)safe);
    return r;
}
static int hk_DFKconvert(void *source, void *dest, int32 ntype, uint32 num_elm, int16 acc_mode, uint32 source_stride, uint32 dest_stride)
{
    if (cur_esz && cv_ubuf) {
        const uint8_t *sp = source, *dp = dest, *p = (sp >= cv_ubuf && sp < cv_ubuf + cv_nbytes) ? sp : (dp >= cv_ubuf && dp < cv_ubuf + cv_nbytes) ? dp : NULL;
        if (p) {
            if (p != cv_next && cv_bad_block < 0) { cv_bad_block = cv_blocks; cv_bad_at = (long)(p - cv_ubuf); cv_bad_want = (long)(cv_next - cv_ubuf); cv_bad_n = (long)num_elm; }
            cv_next = p + (long)num_elm * cur_esz;
            cv_blocks++;
        }
    }
    return (DFKconvert)(source, dest, ntype, num_elm, acc_mode, source_stride, dest_stride);
}
static void *hk_calloc(size_t n, size_t sz)
{
    if (alloc_limit > 0 && n * sz > (size_t)alloc_limit) { alloc_refused++; return NULL; }
    return (calloc)(n, sz);
}
#define Hwrite(a, l, d) hk_Hwrite(a, l, d)
#define DFKconvert(s, d, t, n, a, ss, ds) hk_DFKconvert(s, d, t, n, a, ss, ds)
#define calloc(n, s) hk_calloc(n, s)
#include PUTGET_C
#undef Hwrite
#undef DFKconvert
#undef calloc

/* Oracle "a fill piece is a whole number of elements and lies inside its buffer": hdf_xdr_NCvdata sends the fill values from tBuf (types
 * stored as in memory) or tValues (converted).  A piece that is not a multiple of the element size makes every later piece start in the
 * middle of an element; one that is longer than the buffer reads behind the heap block.  Key sd-fill-piece-not-whole-elements.  For a piece
 * longer than its buffer the call is completed from a zero-padded copy, so that the case runs on (the sanitizer would stop the process). */
static const void *hk_piece_check(const void *data, int32 length)
{
    long have = data == (const void *)tBuf ? tBuf_size : data == (const void *)tValues ? tValues_size : -1;
    if (have < 0 || length <= 0) return NULL;
    if (length % cur_esz != 0 && !fill_not_whole) {
        fill_not_whole = 1;
        hk_fail("sd-fill-piece-not-whole-elements", "Hwrite of %d bytes from the %s buffer (%ld bytes) of a data set with %d-byte elements (allocations above %ld bytes refused)",
                (int)length, data == (const void *)tBuf ? "fill" : "converted fill", have, cur_esz, alloc_limit);
    }
    if (length > have) {
        uint8_t *copy = (calloc)(1, (size_t)length);
        memcpy(copy, data, (size_t)have);
        return copy;
    }
    return NULL;
}

/* Oracle "the conversion blocks tile the caller's buffer": of the DFKconvert calls of one SDwritedata / SDreaddata those that touch the
 * caller's buffer (conv_watch) must do so front to back without gap or overlap and reach its end.  Key sd-convert-blocks-tile.  conv_tiles returns
 * 0 when violated. */
static void conv_watch(const uint8_t *ubuf, long nbytes) { cv_ubuf = cv_next = ubuf; cv_nbytes = nbytes; cv_blocks = 0; cv_bad_block = -1; }
static int conv_tiles(const char *what)
{
    const uint8_t *ubuf = cv_ubuf;
    cv_ubuf = NULL;
    if (cv_bad_block >= 0) {
        hk_fail("sd-convert-blocks-tile", "%s: conversion block %ld (%ld elements) is taken at byte %ld of the caller's buffer, the blocks before it end at byte %ld (allocations above %ld bytes refused)",
                what, cv_bad_block, cv_bad_n, cv_bad_at, cv_bad_want, alloc_limit);
        return 0;
    }
    if (cv_blocks && cv_next != ubuf + cv_nbytes) { hk_fail("sd-convert-blocks-tile", "%s: the conversion blocks end at byte %ld of %ld", what, (long)(cv_next - ubuf), cv_nbytes); return 0; }
    return 1;
}

#define MAXRANK 5
#define MAXCELLS 20000

static const int32 TYPES[] = {DFNT_INT8, DFNT_UINT8, DFNT_CHAR8, DFNT_UCHAR8, DFNT_INT16, DFNT_UINT16,
                              DFNT_INT32, DFNT_UINT32, DFNT_FLOAT32, DFNT_FLOAT64};

static int esize(int32 nt) { return DFKNTsize((nt & ~(DFNT_LITEND | DFNT_NATIVE)) | DFNT_NATIVE); }

/* default fill value per type, as documented (netcdf.h FILL_*): written independently of the library's tables */
static void default_fill(int32 nt, uint8_t *out)
{
    int32 b = nt & ~(DFNT_LITEND | DFNT_NATIVE);
    switch (b) {
        case DFNT_INT8: case DFNT_UINT8: { int8_t v = -127; memcpy(out, &v, 1); break; }
        case DFNT_CHAR8: case DFNT_UCHAR8: { out[0] = 0; break; }
        case DFNT_INT16: case DFNT_UINT16: { int16_t v = -32767; memcpy(out, &v, 2); break; }
        case DFNT_INT32: case DFNT_UINT32: { int32_t v = -2147483647; memcpy(out, &v, 4); break; }
        case DFNT_FLOAT32: { float v = 9.9692099683868690e+36f; memcpy(out, &v, 4); break; }
        case DFNT_FLOAT64: { double v = 9.9692099683868690e+36; memcpy(out, &v, 8); break; }
    }
}

static void print_list(const int32 *v, int n)
{
    if (n == 0) { printf("-"); return; }
    for (int i = 0; i < n; i++) printf(i ? ",%d" : "%d", (int)v[i]);
}


/* ---------------------------------------------------------------- kind D: shape / dsizes / len / offsets as the library computes them */
static void print_ulist(const unsigned long *v, int n)
{
    if (n == 0) { printf("-"); return; }
    for (int i = 0; i < n; i++) printf(i ? ",%lu" : "%lu", v[i]);
}

static void print_llist(const long *v, int n)
{
    if (n == 0) { printf("-"); return; }
    for (int i = 0; i < n; i++) printf(i ? ",%ld" : "%ld", v[i]);
}

/* T sd varshape <sizes of all dimensions> <dimension ids of the variable> <xszof> <file type> <nc type> => <rank> <shape> <dsizes> <len> | fail */
static void print_varshape(const NC_array *dims, const NC_var *vp, int ret)
{
    int       nd = dims ? (int)dims->count : 0, rank = (int)vp->assoc->count;
    NC_dim **dp = dims ? (NC_dim **)dims->values : NULL;
    printf("T sd varshape ");
    if (nd == 0) printf("-");
    for (int i = 0; i < nd; i++) printf(i ? ",%d" : "%d", (int)dp[i]->size);
    printf(" ");
    if (rank == 0) printf("-");
    for (int i = 0; i < rank; i++) printf(i ? ",%d" : "%d", vp->assoc->values[i]);
    printf(" %d %d %d => ", (int)vp->HDFsize, vp->cdf->file_type, (int)vp->type);
    if (ret < 0) { printf("fail\n"); return; }
    printf("%d ", ret); print_ulist(vp->shape, rank); printf(" "); print_ulist(vp->dsizes, rank); printf(" %lu\n", vp->len);
}

/* T sd varoffset <file type> <shape> <xszof> <begin> <recsize> <coords> => <NC_varoffset> */
static void print_varoffset(NC *handle, NC_var *vp, const long *coords)
{
    int rank = (int)vp->assoc->count;
    unsigned long off = NC_varoffset(handle, vp, coords);
    printf("T sd varoffset %d ", handle->file_type); print_ulist(vp->shape, rank);
    printf(" %d %ld %lu ", (int)vp->HDFsize, vp->begin, handle->recsize); print_llist(coords, rank); printf(" => %lu\n", off);
}

/* the NC_var behind an SDS of an open SD file (cdfid in the top 12 bits of the SD id, variable index in the low 16 bits of the SDS id) */
static void lib_shape(int32 sd, int32 sds, const int32 *c1, const int32 *c2)
{
    NC *handle = NC_check_id((int)((sd >> 20) & 0xfff));
    NC_var *vp = handle ? NC_hlookupvar(handle, (int)(sds & 0xffff)) : NULL;
    if (vp == NULL || vp->assoc == NULL) { hk_fail("sd-novar", "no NC_var behind the SDS"); return; }
    int rank = (int)vp->assoc->count;
    print_varshape(handle->dims, vp, rank);
    if (rank == 0 || vp->dsizes == NULL) return;
    if (vp->dsizes[rank - 1] != (unsigned long)vp->HDFsize) hk_fail("sd-shape-last-dsize", "dsizes[%d] = %lu, element size %d", rank - 1, vp->dsizes[rank - 1], (int)vp->HDFsize);
    for (int i = 0; i + 1 < rank; i++)
        if (vp->dsizes[i] != vp->dsizes[i + 1] * vp->shape[i + 1]) hk_fail("sd-shape-stride", "dsizes[%d] = %lu is not dsizes[%d] * shape[%d]", i, vp->dsizes[i], i + 1, i + 1);
    const int32 *cs[2] = {c1, c2};
    for (int k = 0; k < 2; k++) {
        if (cs[k] == NULL) continue;
        long coords[MAXRANK]; int in = 1;
        for (int i = 0; i < rank; i++) { coords[i] = cs[k][i]; if (coords[i] < 0 || (!(i == 0 && vp->shape[0] == 0) && (unsigned long)coords[i] >= vp->shape[i])) in = 0; }
        if (!in) continue;
        print_varoffset(handle, vp, coords);
        if (vp->shape[0] != 0 && NC_varoffset(handle, vp, coords) >= vp->len) hk_fail("sd-offset-range", "offset %lu outside the variable (len %lu)", NC_varoffset(handle, vp, coords), vp->len);
    }
}

/* ---------------------------------------------------------------- case A: placement */
static void case_placement(int k)
{
    const char *path = hk_tmp("p.hdf");
    int rank = (int)hk_range(1, 4);
    int32 dims[MAXRANK], start[MAXRANK], stride[MAXRANK], count[MAXRANK];
    int strided = hk_chance(40), n = 1, total = 1;
    for (int i = 0; i < rank; i++) {
        dims[i] = (int32)hk_range(1, rank >= 4 ? 4 : 6);
        total *= dims[i];
    }
    for (int i = 0; i < rank; i++) {
        stride[i] = strided ? (int32)hk_range(1, 3) : 1;
        /* bias towards whole dimensions so the max-contiguous rule is exercised */
        if (hk_chance(45)) { start[i] = 0; stride[i] = hk_chance(70) ? 1 : stride[i]; count[i] = (dims[i] - 1) / stride[i] + 1; }
        else {
            start[i] = (int32)hk_range(0, dims[i] - 1);
            int maxc = (dims[i] - 1 - start[i]) / stride[i] + 1;
            count[i] = (int32)hk_range(1, maxc);
        }
        n *= count[i];
    }
    int32 *vals = malloc(sizeof(int32) * (size_t)n);
    for (int i = 0; i < n; i++) vals[i] = i + 1;
    int32 sd = SDstart(path, DFACC_CREATE);
    if (sd == FAIL) { hk_fail("sd-start", "create"); free(vals); return; }
    if (hk_chance(50)) SDsetfillmode(sd, SD_NOFILL);
    int32 sds = SDcreate(sd, "v", DFNT_INT32, rank, dims);
    { /* kind D: the compiled shape of this variable, the byte offsets of the first and of the last cell of the request */
        int32 last[MAXRANK];
        for (int i = 0; i < rank; i++) last[i] = start[i] + (count[i] - 1) * stride[i];
        lib_shape(sd, sds, start, last);
    }
    int all1 = 1; for (int i = 0; i < rank; i++) if (stride[i] != 1) all1 = 0;
    intn r = SDwritedata(sds, start, (all1 && hk_chance(50)) ? NULL : stride, count, vals);
    if (r == FAIL) hk_fail("sd-valid-rejected", "placement write rejected");
    SDendaccess(sds);
    SDend(sd);
    free(vals);
    if (r == FAIL) return;
    /* raw element */
    int32 fid = Hopen(path, DFACC_READ, 0);
    uint16 ft = 0, fr = 0; int32 off, len;
    if (fid == FAIL || Hfind(fid, DFTAG_SD, DFREF_WILDCARD, &ft, &fr, &off, &len, DF_FORWARD) == FAIL) { hk_fail("sd-noraw", "no DFTAG_SD element"); if (fid != FAIL) Hclose(fid); return; }
    uint8_t *raw = malloc((size_t)len + 4);
    if (Hgetelement(fid, DFTAG_SD, fr, raw) != len) { hk_fail("sd-noraw", "Hgetelement"); free(raw); Hclose(fid); return; }
    Hclose(fid);
    if (len > total * 4) hk_fail("sd-element-too-long", "element %d bytes > %d", (int)len, total * 4);
    int32 *where = malloc(sizeof(int32) * (size_t)n);
    for (int i = 0; i < n; i++) where[i] = -1;
    for (int o = 0; o + 4 <= len; o += 4) {
        int32 v = (int32)(((uint32)raw[o] << 24) | ((uint32)raw[o + 1] << 16) | ((uint32)raw[o + 2] << 8) | raw[o + 3]);
        if (v >= 1 && v <= n) { if (where[v - 1] != -1) hk_fail("sd-dup-value", "counter %d stored twice", v); where[v - 1] = o / 4; }
    }
    printf("T sd offs "); print_list(dims, rank); printf(" "); print_list(start, rank); printf(" "); print_list(stride, rank); printf(" "); print_list(count, rank);
    printf(" => "); print_list(where, n); printf("\n");
    free(where); free(raw);
    hk_stat(all1 ? "placement_unit" : "placement_strided", 1);
}

/* ---------------------------------------------------------------- case B: array semantics */
typedef struct {
    int rank, esz, unlimited, fillmode, userfill;
    long maxwritten;              /* highest row-major cell index written so far (-1 none) */
    int tail;                     /* the current request reaches beyond maxwritten (set by the caller before KEY) */
    int smallblocks;              /* SDsetblocksize was called: skipped records become linked-block holes in NOFILL mode */
    int nwrites, unsized;         /* successful writes so far; NOFILL: a read or a reopen preceded the first write */
    int32 nt, dims[MAXRANK];     /* dims[0] = allocated shadow extent for unlimited */
    int32 extent0;               /* current extent of dim 0 (unlimited) */
    uint8_t fill[8];
    uint8_t *data;               /* shadow, row-major over dims (dims[0]=cap for unlimited) */
    uint8_t *written;            /* per cell */
    long ncells;
} Shadow;

static long cell_index(const Shadow *s, const int32 *c)
{
    long ix = 0;
    for (int i = 0; i < s->rank; i++) ix = ix * s->dims[i] + c[i];
    return ix;
}

/* iterate a strided slab in row-major order; calls f(cell index, k-th value) */
static long slab_iter(const Shadow *s, const int32 *start, const int32 *stride, const int32 *count, long *out, long cap)
{
    int32 c[MAXRANK], i_[MAXRANK];
    long n = 0;
    if (s->rank == 0) { out[0] = 0; return 1; }
    for (int i = 0; i < s->rank; i++) { i_[i] = 0; c[i] = start[i]; }
    for (;;) {
        if (n < cap) out[n] = cell_index(s, c);
        n++;
        int d = s->rank - 1;
        while (d >= 0) {
            i_[d]++; c[d] = start[d] + i_[d] * stride[d];
            if (i_[d] < count[d]) break;
            i_[d] = 0; c[d] = start[d]; d--;
        }
        if (d < 0) break;
    }
    return n;
}

static int req_valid(const Shadow *s, const int32 *start, const int32 *stride, const int32 *count, int is_write)
{
    for (int i = 0; i < s->rank; i++) {
        if (start[i] < 0 || count[i] < 1 || stride[i] < 1) return 0;
        long last = (long)start[i] + (long)(count[i] - 1) * stride[i];
        long lim = (i == 0 && s->unlimited) ? (is_write ? s->dims[0] : s->extent0) : s->dims[i];
        if (last >= lim) return 0;
    }
    return 1;
}

/* NOFILL + unlimited: the stored element ends at the last cell written, so a partially written last record
   is not counted after reopen (known defect, keyed separately) */
static int partial_last_record(const Shadow *s)
{
    if (s->fillmode || !s->unlimited || s->extent0 <= 0) return 0;
    long reclen = s->ncells / s->dims[0];
    return s->written[(long)s->extent0 * reclen - 1] != 1;
}

/* Two known NOFILL-mode defects have several symptoms each; they are keyed by ROOT CAUSE so that each is listed once
   and nothing else can hide behind it (any other NOFILL failure keeps the plain key and alarms):
   :nofill-unsized  a fixed-size dataset whose first write did not directly follow SDcreate in the same session (a read or a
                    close/reopen came first) is never pre-sized (mfsd.c SDwritedata sets set_length only while var->created),
                    so writes at a non-zero offset fail (Hseek past the end) and reads of unwritten cells fail (short Hread);
   :nofill-unwritten-tail  a pre-sized fixed-size dataset is physically only as long as the last byte written until the file is
                    closed (Hsetlength moves f_end_off, the file is extended at close): an in-session read that reaches beyond
                    the last written cell fails (short fread) instead of returning undefined values;
   :nofill-linked-unwritten-tail  (C01/F26) the unwritten remainder of the last-allocated block of a linked-block element is
                    reserved (f_end_off moved) but not in the file until close, so an in-session read reaching into it fails
                    (short fread); reached here through NOFILL + unlimited + small SDsetblocksize.  (The former
                    :linked-block-hole defect, HLPread's short count for a missing block, is fixed by 9115bb2.)
   :nofill-partial-last-record  an unlimited dataset whose last record is only partially written ends at the last byte written:
                    reads of the rest of that record fail and the record is not counted after reopen. */
static const char *KEY(const Shadow *s, const char *base)
{
    static char b[4][96]; static int i = 0; char *o = b[i++ & 3];
    if (!s->fillmode && !s->unlimited && s->unsized) snprintf(o, 96, "%s:nofill-unsized", base);
    else if (!s->fillmode && !s->unlimited && s->tail) snprintf(o, 96, "%s:nofill-unwritten-tail", base);
    else if (partial_last_record(s)) snprintf(o, 96, "%s:nofill-partial-last-record", base);
    else if (!s->fillmode && s->unlimited && s->smallblocks) snprintf(o, 96, "%s:nofill-linked-unwritten-tail", base);
    else snprintf(o, 96, "%s", base);
    return o;
}

/* a rejected write may have modified cells INSIDE the requested region (the property only protects the outside):
   mark every in-bounds cell of the requested region as unknown (2) */
static void mark_unknown(Shadow *s, const int32 *start, const int32 *stride, const int32 *count)
{
    int32 c[MAXRANK];
    for (long ix = 0; ix < s->ncells; ix++) {
        long r = ix; int in = 1;
        for (int i = s->rank - 1; i >= 0; i--) { c[i] = (int32)(r % s->dims[i]); r /= s->dims[i]; }
        for (int i = 0; i < s->rank && in; i++) {
            int32 st = stride[i] >= 1 ? stride[i] : 1;
            if (c[i] < start[i]) in = 0;
            else if ((c[i] - start[i]) % st) in = 0;
            else if ((c[i] - start[i]) / st >= count[i]) in = 0;
        }
        if (in) s->written[ix] = 2;
    }
}

static void verify_all(const Shadow *s, int32 sds, const char *when)
{
    int32 start[MAXRANK], count[MAXRANK];
    long n = 1;
    for (int i = 0; i < s->rank; i++) { start[i] = 0; count[i] = (i == 0 && s->unlimited) ? s->extent0 : s->dims[i]; n *= count[i]; }
    if (n == 0) return;
    uint8_t *buf = malloc((size_t)n * s->esz + 8);
    memset(buf, 0x5A, (size_t)n * s->esz + 8);
    ((Shadow *)s)->tail = (s->maxwritten < s->ncells - 1) && strcmp(when, "after-reopen") != 0;
    if (SDreaddata(sds, start, NULL, count, buf) == FAIL) { hk_fail(KEY(s, "sd-valid-rejected"), "%s whole read failed", when); ((Shadow *)s)->tail = 0; free(buf); return; }
    ((Shadow *)s)->tail = 0;
    long *ix = malloc(sizeof(long) * (size_t)n);
    int32 ones[MAXRANK]; for (int i = 0; i < MAXRANK; i++) ones[i] = 1;
    slab_iter(s, start, ones, count, ix, n);
    for (long k = 0; k < n; k++) {
        const uint8_t *got = buf + k * s->esz;
        if (s->written[ix[k]] == 2) continue;
        if (s->written[ix[k]]) {
            if (memcmp(got, s->data + ix[k] * s->esz, (size_t)s->esz) != 0) { hk_fail(KEY(s, "sd-read-data"), "%s cell %ld differs (rank %d nt %d)", when, ix[k], s->rank, (int)s->nt); break; }
        }
        else if (s->fillmode) {
            if (memcmp(got, s->fill, (size_t)s->esz) != 0) { hk_fail("sd-fill", "%s unwritten cell %ld is not the fill value (rank %d nt %d userfill %d unlimited %d)", when, ix[k], s->rank, (int)s->nt, s->userfill, s->unlimited); break; }
        }
    }
    if (buf[n * s->esz] != 0x5A) hk_fail("sd-read-overrun", "%s", when);
    free(ix); free(buf);
}

static void case_array(int k)
{
    char pname[64]; snprintf(pname, sizeof pname, "a%d.hdf", k);
    const char *path = hk_tmp(pname);
    Shadow s; memset(&s, 0, sizeof s);
    s.rank = (int)hk_range(1, 4);
    if (hk_chance(3)) s.rank = 5;
    s.nt = HK_PICK(TYPES);
    if (hk_chance(25)) s.nt |= DFNT_LITEND; else if (hk_chance(15)) s.nt |= DFNT_NATIVE;
    s.esz = esize(s.nt);
    s.unlimited = hk_chance(30);
    s.fillmode = hk_chance(75);
    s.userfill = hk_chance(50);
    int32 cdims[MAXRANK];
    s.ncells = 1;
    for (int i = 0; i < s.rank; i++) { s.dims[i] = (int32)hk_range(1, s.rank >= 4 ? 4 : 7); cdims[i] = s.dims[i]; }
    if (s.unlimited) { s.dims[0] = (int32)hk_range(4, 12); cdims[0] = SD_UNLIMITED; s.extent0 = 0; }
    for (int i = 0; i < s.rank; i++) s.ncells *= s.dims[i];
    s.maxwritten = -1;
    s.data = calloc((size_t)s.ncells, (size_t)s.esz); s.written = calloc((size_t)s.ncells, 1);
    if (s.userfill) for (int i = 0; i < s.esz; i++) s.fill[i] = hk_byte(); else default_fill(s.nt, s.fill);

    int32 sd = SDstart(path, DFACC_CREATE);
    if (sd == FAIL) { hk_fail("sd-start", "create"); goto out; }
    if (!s.fillmode) SDsetfillmode(sd, SD_NOFILL);
    int32 sds = SDcreate(sd, "data", s.nt, s.rank, cdims);
    if (sds == FAIL) { hk_fail("sd-create", "rank %d nt %d", s.rank, (int)s.nt); SDend(sd); goto out; }
    if (s.userfill && SDsetfillvalue(sds, s.fill) == FAIL) hk_fail("sd-setfill", "nt %d", (int)s.nt);
    if (s.unlimited && hk_chance(40)) { SDsetblocksize(sds, (int32)hk_range(1, 200)); s.smallblocks = 1; }
    printf("INFO rank=%d nt=%d unlimited=%d fill=%d userfill=%d dims=", s.rank, (int)s.nt, s.unlimited, s.fillmode, s.userfill); print_list(s.dims, s.rank); printf("\n");
    { /* kind D: the compiled shape (unlimited first dimension = 0), the byte offset of the last cell of the shadow extent */
        int32 lastc[MAXRANK];
        for (int i = 0; i < s.rank; i++) lastc[i] = s.dims[i] - 1;
        lib_shape(sd, sds, lastc, NULL);
    }

    int nops = (int)hk_range(3, 14);
    long *ix = malloc(sizeof(long) * MAXCELLS);
    uint8_t *buf = malloc((size_t)MAXCELLS * 8 + 16);
    for (int op = 0; op < nops; op++) {
        int act = (int)hk_range(0, 9);
        if (act == 0) { /* close and reopen */
            SDendaccess(sds);
            if (SDend(sd) == FAIL) hk_fail(KEY(&s, "sd-end"), "SDend (mid-session)");
            sd = SDstart(path, DFACC_RDWR);
            if (sd == FAIL) { hk_fail("sd-restart", "SDstart RDWR"); goto out2; }
            sds = SDselect(sd, 0);
            if (!s.fillmode) SDsetfillmode(sd, SD_NOFILL);
            /* extent after reopen */
            int32 r_, d_[MAXRANK], nt_, na_; char nm[64];
            if (SDgetinfo(sds, nm, &r_, d_, &nt_, &na_) == FAIL) hk_fail("sd-getinfo", "after reopen");
            else if (s.unlimited && d_[0] != s.extent0) {
                if (partial_last_record(&s)) { hk_fail(KEY(&s, "sd-extent"), "after reopen extent %d expected %d", (int)d_[0], (int)s.extent0); SDendaccess(sds); SDend(sd); goto out2; }
                hk_fail("sd-extent", "after reopen extent %d expected %d", (int)d_[0], (int)s.extent0);
            }
            hk_stat("reopens", 1);
            s.maxwritten = s.ncells; /* the file was extended to its full length at close */
            if (s.nwrites == 0 && !s.fillmode) s.unsized = 1;
            continue;
        }
        int is_write = act < 6;
        int32 start[MAXRANK], stride[MAXRANK], count[MAXRANK];
        int want_invalid = hk_chance(18);
        int strided = hk_chance(35);
        long n = 1;
        for (int i = 0; i < s.rank; i++) {
            long lim = (i == 0 && s.unlimited) ? (is_write ? s.dims[0] : s.extent0) : s.dims[i];
            stride[i] = strided ? (int32)hk_range(1, 3) : 1;
            if (lim <= 0) { start[i] = 0; count[i] = 1; continue; } /* reading an empty unlimited var: invalid anyway */
            if (hk_chance(35)) { start[i] = 0; count[i] = (int32)((lim - 1) / stride[i] + 1); }
            else { start[i] = (int32)hk_range(0, lim - 1); count[i] = (int32)hk_range(1, (lim - 1 - start[i]) / stride[i] + 1); }
        }
        if (want_invalid) {
            int d = (int)hk_range(0, s.rank - 1);
            int kind = (int)hk_range(0, 3);
            if (d == 0 && s.unlimited && is_write) kind = 3; /* growth along the unlimited dimension is legal: only a negative start is invalid */
            switch (kind) {
                case 0: count[d] += (int32)hk_range(1, 3) + ((d == 0 && s.unlimited && is_write) ? s.dims[0] : (d == 0 && s.unlimited ? s.extent0 : s.dims[d])); break;
                case 1: start[d] = ((d == 0 && s.unlimited) ? (is_write ? s.dims[0] : s.extent0) : s.dims[d]) + (int32)hk_range(0, 2); break;
                case 2: if (strided || 1) { stride[d] = (int32)hk_range(2, 5); count[d] = ((d == 0 && s.unlimited) ? (is_write ? s.dims[0] : s.extent0) : s.dims[d]); strided = 1; } break;
                default: start[d] = -(int32)hk_range(1, 3); break;
            }
        }
        int valid = req_valid(&s, start, stride, count, is_write);
        /* keep the shadow's unlimited capacity as a hard cap for writes so the reference array can hold them */
        for (int i = 0; i < s.rank; i++) n *= (count[i] > 0 ? count[i] : 1);
        if (n > MAXCELLS) continue;
        int all1 = 1; for (int i = 0; i < s.rank; i++) if (stride[i] != 1) all1 = 0;
        int32 *sp = (all1 && hk_chance(50)) ? NULL : stride;
        printf("INFO op=%s valid=%d start=", is_write ? "write" : "read", valid); print_list(start, s.rank); printf(" stride="); print_list(stride, s.rank); printf(" count="); print_list(count, s.rank); printf(" sp=%s\n", sp ? "given" : "NULL");
        if (is_write) {
            for (long b = 0; b < n * s.esz; b++) buf[b] = hk_byte();
            intn r = SDwritedata(sds, start, sp, count, buf);
            hk_stat(valid ? "write_valid" : "write_invalid", 1);
            if (valid && r == FAIL) { hk_fail(KEY(&s, "sd-valid-rejected"), "write rank %d unl %d start %d,%d,%d stride %d,%d,%d count %d,%d,%d dims %d,%d,%d", s.rank, s.unlimited, start[0],start[1],start[2],stride[0],stride[1],stride[2],count[0],count[1],count[2],s.dims[0],s.dims[1],s.dims[2]); HEprint(stdout,0); mark_unknown(&s, start, stride, count); continue; }
            if (!valid) {
                if (r != FAIL) {
                    /* writing beyond the shadow capacity of an unlimited dimension is legal for the library: resync is impossible, stop the case */
                    int only_growth = 1;
                    for (int i = 0; i < s.rank; i++) {
                        long last = (long)start[i] + (long)(count[i] - 1) * stride[i];
                        if (start[i] < 0 || count[i] < 1 || stride[i] < 1) only_growth = 0;
                        else if (!(i == 0 && s.unlimited) && last >= s.dims[i]) only_growth = 0;
                    }
                    if (!only_growth) hk_fail("sd-invalid-accepted", "write start/stride/count outside the extent returned success (rank %d unlimited %d)", s.rank, s.unlimited);
                    break;
                }
                /* rejected: cells outside the requested region must be untouched (verified by later reads) */
                mark_unknown(&s, start, stride, count);
                if (s.unlimited) { int32 r_, d_[MAXRANK], nt_, na_; char nm[64]; if (SDgetinfo(sds, nm, &r_, d_, &nt_, &na_) != FAIL && d_[0] >= s.extent0 && d_[0] <= s.dims[0]) s.extent0 = d_[0]; }
                continue;
            }
            s.nwrites++;
            slab_iter(&s, start, stride, count, ix, MAXCELLS);
            for (long q = 0; q < n; q++) { memcpy(s.data + ix[q] * s.esz, buf + q * s.esz, (size_t)s.esz); s.written[ix[q]] = 1; if (ix[q] > s.maxwritten) s.maxwritten = ix[q]; }
            if (s.unlimited) { int32 e = start[0] + (count[0] - 1) * stride[0] + 1; if (e > s.extent0) s.extent0 = e; }
        }
        else {
            memset(buf, 0x5A, (size_t)n * s.esz + 8);
            intn r = SDreaddata(sds, start, sp, count, buf);
            hk_stat(valid ? "read_valid" : "read_invalid", 1);
            if (s.nwrites == 0 && !s.fillmode) s.unsized = 1;
            s.tail = 0;
            if (valid) { long nn = slab_iter(&s, start, stride, count, ix, MAXCELLS); for (long q = 0; q < nn && q < MAXCELLS; q++) if (ix[q] > s.maxwritten) s.tail = 1; }
            if (valid && r == FAIL) { hk_fail(KEY(&s, "sd-valid-rejected"), "read rank %d unlimited %d", s.rank, s.unlimited); continue; }
            if (!valid) { if (r != FAIL) hk_fail("sd-invalid-accepted", "read start/stride/count outside the extent returned success (rank %d unlimited %d extent0 %d)", s.rank, s.unlimited, (int)s.extent0); continue; }
            slab_iter(&s, start, stride, count, ix, MAXCELLS);
            for (long q = 0; q < n; q++) {
                const uint8_t *got = buf + q * s.esz;
                if (s.written[ix[q]] == 2) continue;
                if (s.written[ix[q]]) { if (memcmp(got, s.data + ix[q] * s.esz, (size_t)s.esz)) { hk_fail(KEY(&s, "sd-read-data"), "cell %ld differs (rank %d nt %d strided %d)", ix[q], s.rank, (int)s.nt, !all1); break; } }
                else if (s.fillmode && memcmp(got, s.fill, (size_t)s.esz)) { hk_fail("sd-fill", "unwritten cell %ld is not the fill value (rank %d nt %d userfill %d unlimited %d)", ix[q], s.rank, (int)s.nt, s.userfill, s.unlimited); break; }
            }
            if (buf[n * s.esz] != 0x5A) hk_fail("sd-read-overrun", "read wrote past its buffer");
        }
    }
    verify_all(&s, sds, "end-of-session");
    {
        int32 r_, d_[MAXRANK], nt_, na_; char nm[64];
        if (SDgetinfo(sds, nm, &r_, d_, &nt_, &na_) == FAIL) hk_fail("sd-getinfo", "in session");
        else if (s.unlimited && d_[0] != s.extent0) hk_fail(KEY(&s, "sd-extent"), "in-session extent %d expected %d", (int)d_[0], (int)s.extent0);
    }
    SDendaccess(sds);
    if (SDend(sd) == FAIL) hk_fail(KEY(&s, "sd-end"), "SDend");
    sd = SDstart(path, DFACC_READ);
    if (sd == FAIL) { hk_fail("sd-restart", "SDstart READ"); goto out2; }
    sds = SDselect(sd, 0);
    if (partial_last_record(&s)) {
        int32 r_, d_[MAXRANK], nt_, na_; char nm[64];
        if (SDgetinfo(sds, nm, &r_, d_, &nt_, &na_) != FAIL && d_[0] != s.extent0) {
            hk_fail(KEY(&s, "sd-extent"), "after reopen extent %d expected %d", (int)d_[0], (int)s.extent0);
            SDendaccess(sds); SDend(sd); goto out2;
        }
    }
    verify_all(&s, sds, "after-reopen");
    {
        uint8_t fv[8];
        if (s.userfill) { if (SDgetfillvalue(sds, fv) == FAIL || memcmp(fv, s.fill, (size_t)s.esz)) hk_fail("sd-getfill", "SDgetfillvalue after reopen"); }
    }
    SDendaccess(sds); SDend(sd);
out2:
    free(ix); free(buf);
out:
    unlink(path);
    free(s.data); free(s.written);
}

/* ---------------------------------------------------------------- case C: NCvcmaxcontig at unit level
 *   T sd maxcontig <shape> <origin> <edges> <recsize> <len> => <index into edges>|null
 * shape[0] = 0 is a record variable; origins are valid coordinates (what NCcoordck lets through); edges are whole, partial, empty or
 * too long by 1..3; now and then one dimension is moved up by 2^62 (unsigned long arithmetic).  h4model answers with `Slab.maxContig`
 * and also runs the function body TRANSLATED from the current putget.c (Tie A, function level) on the same arguments. */
static void print_ul(const unsigned long *v, int n)
{
    for (int i = 0; i < n; i++) printf(i ? ",%lu" : "%lu", v[i]);
}

static void case_maxcontig(void)
{
    int reps = (int)hk_range(1, 3);
    for (int rep = 0; rep < reps; rep++) {
        int rank = (int)hk_range(1, 5);
        unsigned long shape[MAXRANK];
        long origin[MAXRANK], edges[MAXRANK];
        int rec = hk_chance(30), bad = hk_chance(30) ? (int)hk_range(0, rank - 1) : -1, big = hk_chance(10) ? (int)hk_range(0, rank - 1) : -1;
        for (int i = 0; i < rank; i++) {
            shape[i] = (unsigned long)hk_range(1, 6);
            if (i == 0 && rec) { shape[0] = 0; origin[0] = hk_range(0, 5); edges[0] = hk_range(0, 4); continue; }
            if (hk_chance(50)) { origin[i] = 0; edges[i] = (long)shape[i]; }
            else {
                origin[i] = hk_range(0, (long)shape[i] - 1);
                edges[i] = hk_range(hk_chance(15) ? 0 : 1, (long)shape[i] - origin[i]);
            }
            if (i == bad) edges[i] = (long)shape[i] - origin[i] + hk_range(1, 3);
            if (i == big) { shape[i] += 1UL << 62; if (hk_chance(60)) edges[i] += 1L << 62; }
        }
        NC handle; NC_var var; NC_iarray assoc;
        memset(&handle, 0, sizeof handle); memset(&var, 0, sizeof var); memset(&assoc, 0, sizeof assoc);
        handle.recsize = (unsigned long)hk_range(0, 12);
        var.len = (unsigned long)hk_range(0, 12);
        var.shape = shape; var.assoc = &assoc; assoc.count = (unsigned)rank;
        const long *r = NCvcmaxcontig(&handle, &var, origin, edges);
        printf("T sd maxcontig "); print_ul(shape, rank); printf(" "); print_ul((unsigned long *)origin, rank); printf(" ");
        print_ul((unsigned long *)edges, rank); printf(" %lu %lu => ", handle.recsize, var.len);
        if (r == NULL) printf("null\n"); else printf("%ld\n", (long)(r - edges));
        /* implementation-side oracle: the answer is a pointer into edges (or one past it), at or after boundary, and everything
         * after it is taken whole */
        if (r != NULL) {
            long kx = (long)(r - edges);
            if (kx < 0 || kx > rank) hk_fail("sd-maxcontig-range", "index %ld rank %d", kx, rank);
            else for (int i = (int)kx + 1; i < rank; i++)
                if ((unsigned long)edges[i] != shape[i]) hk_fail("sd-maxcontig-notwhole", "index %ld: dimension %d is not taken whole", kx, i);
        }
        hk_stat(r == NULL ? "maxcontig_null" : "maxcontig_index", 1);
    }
}


/* ---------------------------------------------------------------- kind D at unit level: NC_var_shape + NC_varoffset on hand-made structures */
static void case_shape_unit(void)
{
    int reps = (int)hk_range(1, 3);
    for (int rep = 0; rep < reps; rep++) {
        int     nd = (int)hk_range(1, 6), rank = hk_chance(8) ? 0 : (int)hk_range(1, 5);
        NC_dim  dim[6]; NC_dim *dimp[6];
        int     ids[MAXRANK];
        int     big = hk_chance(12), unl = hk_chance(35) ? 0 : -1;
        memset(dim, 0, sizeof dim);
        for (int i = 0; i < nd; i++) {
            dim[i].size = (int32)hk_range(1, 6);
            if (big) dim[i].size = (int32)(hk_chance(50) ? hk_range(60000, 70000) : hk_range(2147483000L, 2147483647L));
            dimp[i] = &dim[i];
        }
        if (unl == 0) dim[0].size = NC_UNLIMITED;
        for (int i = 0; i < rank; i++) {
            ids[i] = (int)hk_range(unl == 0 && i > 0 && nd > 1 ? 1 : 0, nd - 1);
            if (i == 0 && unl == 0 && hk_chance(70)) ids[0] = 0;
        }
        if (rank > 0 && hk_chance(12)) { /* an invalid request: bad id, or the unlimited dimension at an index other than 0 */
            int k = (int)hk_range(0, rank - 1);
            switch ((int)hk_range(0, 2)) {
                case 0: ids[k] = -(int)hk_range(1, 3); break;
                case 1: ids[k] = nd + (int)hk_range(0, 2); break;
                default: if (unl == 0 && rank > 1) ids[(int)hk_range(1, rank - 1)] = 0; break;
            }
        }
        NC cdf; NC_var var; NC_iarray assoc; NC_array dims;
        memset(&cdf, 0, sizeof cdf); memset(&var, 0, sizeof var); memset(&assoc, 0, sizeof assoc); memset(&dims, 0, sizeof dims);
        cdf.file_type = hk_chance(60) ? HDF_FILE : netCDF_FILE;
        cdf.recsize = (unsigned long)hk_range(0, 5000);
        dims.count = (unsigned)nd; dims.values = (uint8_t *)dimp;
        assoc.count = (unsigned)rank; assoc.values = ids;
        var.assoc = &assoc; var.cdf = &cdf; var.shape = NULL; var.dsizes = NULL;
        var.type = (nc_type)hk_range(NC_BYTE, NC_DOUBLE);
        { static const int32 SZ[] = {1, 2, 4, 8}; var.HDFsize = HK_PICK(SZ); }
        var.len = 777; var.begin = hk_range(0, 4000);
        int ret = NC_var_shape(&var, &dims);
        print_varshape(&dims, &var, ret);
        hk_stat(ret < 0 ? "varshape_fail" : big ? "varshape_big" : "varshape_ok", 1);
        if (ret >= 1) {
            /* oracle: the last stride is the element size; each stride is the next one times the next extent (in unsigned long, as stored) */
            if (var.dsizes[rank - 1] != (unsigned long)var.HDFsize) hk_fail("sd-shape-last-dsize", "unit: dsizes[%d] = %lu, element size %d", rank - 1, var.dsizes[rank - 1], (int)var.HDFsize);
            for (int i = 0; i + 1 < rank; i++)
                if (var.dsizes[i] != var.dsizes[i + 1] * var.shape[i + 1]) hk_fail("sd-shape-stride", "unit: dsizes[%d]", i);
            int noff = (int)hk_range(1, 3);
            for (int q = 0; q < noff; q++) {
                long coords[MAXRANK];
                for (int i = 0; i < rank; i++) {
                    unsigned long ext = var.shape[i];
                    coords[i] = (i == 0 && ext == 0) ? hk_range(0, 9) : (ext > 6 ? hk_range(0, 6) : hk_range(0, (long)ext - 1));
                    if (hk_chance(5)) coords[i] += hk_range(1, 3); /* NC_varoffset itself does not check */
                }
                print_varoffset(&cdf, &var, coords);
            }
        }
        free(var.shape); free(var.dsizes);
    }
}

/* ---------------------------------------------------------------- kind D at unit level: NCcoordck on hand-made structures
 *   T sd coordck <file type> <x_op> <nc_API?> <flags> <vp numrecs> <handle numrecs> <shape> <coords> => <TRUE/FALSE> <vp numrecs> <handle numrecs> <flags>
 * The fill-on-extend I/O (Hwrite / NCfillrecord / xdr_numrecs) cannot run on a hand-made handle: NC_NOFILL is set and NC_NSYNC is clear
 * whenever the record dimension can grow, so that only the decisions and the record bookkeeping are exercised here (the fill path runs in kind B). */
static void case_coordck_unit(void)
{
    int reps = (int)hk_range(1, 4);
    for (int rep = 0; rep < reps; rep++) {
        int rank = (int)hk_range(1, 5), rec = hk_chance(45);
        unsigned long shape[MAXRANK]; long coords[MAXRANK];
        for (int i = 0; i < rank; i++) {
            shape[i] = (unsigned long)hk_range(1, 6);
            coords[i] = hk_range(0, (long)shape[i] - 1);
        }
        if (rec) { shape[0] = 0; coords[0] = hk_range(0, 8); }
        if (hk_chance(30)) {
            int k = (int)hk_range(0, rank - 1);
            switch ((int)hk_range(0, 2)) {
                case 0: coords[k] = -hk_range(1, 3); break;
                case 1: coords[k] = (long)shape[k] + hk_range(0, 2); break;
                default: coords[k] = (long)shape[k]; break;
            }
        }
        NC handle; NC_var var; NC_iarray assoc; NC_string name; XDR xdr; char nm[2] = "v";
        memset(&handle, 0, sizeof handle); memset(&var, 0, sizeof var); memset(&assoc, 0, sizeof assoc); memset(&name, 0, sizeof name); memset(&xdr, 0, sizeof xdr);
        handle.file_type = hk_chance(60) ? HDF_FILE : netCDF_FILE;
        handle.xdrs = &xdr; xdr.x_op = hk_chance(55) ? XDR_ENCODE : XDR_DECODE;
        handle.numrecs = (unsigned)hk_range(0, 8);
        handle.flags = NC_NOFILL | (hk_chance(30) ? NC_NDIRTY : 0) | (hk_chance(30) ? NC_RDWR : 0);
        if (!rec && hk_chance(50)) handle.flags = (hk_chance(50) ? NC_NSYNC : 0) | (hk_chance(50) ? NC_RDWR : 0); /* a fixed-size variable never reaches the I/O */
        var.assoc = &assoc; assoc.count = (unsigned)rank; var.shape = shape; var.name = &name; name.values = nm; name.len = 1; name.count = 2;
        var.numrecs = (int)hk_range(0, 6); var.aid = FAIL; var.HDFsize = 4; var.szof = 4; var.len = 4;
        const char *saved = cdf_routine_name;
        cdf_routine_name = hk_chance(50) ? "ncvarget" : "SDreaddata";
        int api = nc_API(cdf_routine_name);
        unsigned f0 = handle.flags, h0 = handle.numrecs; int v0 = var.numrecs;
        bool_t r = NCcoordck(&handle, &var, coords);
        cdf_routine_name = saved;
        printf("T sd coordck %d %d %d %u %d %u ", handle.file_type, (int)xdr.x_op, api, f0, v0, h0);
        print_ulist(shape, rank); printf(" "); print_llist(coords, rank);
        printf(" => %d %d %u %u\n", r ? 1 : 0, var.numrecs, handle.numrecs, handle.flags);
        /* implementation-side oracle: a coordinate outside a fixed extent is never accepted, an accepted request never shrinks a record count */
        for (int i = rec ? 1 : 0; i < rank; i++)
            if (r && (coords[i] < 0 || (unsigned long)coords[i] >= shape[i])) hk_fail("sd-coordck-oracle", "coordinate %d = %ld accepted (extent %lu)", i, coords[i], shape[i]);
        if (r && rec && coords[0] < 0) hk_fail("sd-coordck-oracle", "negative record index accepted");
        if (var.numrecs < v0 || handle.numrecs < h0) hk_fail("sd-coordck-oracle", "record count went down");
        hk_stat(r ? "coordck_true" : "coordck_false", 1);
    }
}

/* ---------------------------------------------------------------- kind E: the internal piece / buffer / block sizes of the data path
 * (engine entry `sd_big`, argv[4] == "big").  The arrays of the kinds A and B are a few KB, so every loop of the data path that works in
 * pieces runs at most once there.  Here the geometry is built AROUND the sizes the library uses internally (all taken from the compiled
 * text of putget.c / nc_priv.h, never copied):
 *   MAX_SIZE        the piece in which hdf_xdr_NCvdata writes the fill values before and behind the first hyperslab of a new data element
 *   MAX_BLOCK_SIZE, BLOCK_MULT, BLOCK_COUNT   the linked blocks hdf_get_data gives a record variable (block = min(record * BLOCK_MULT,
 *                   MAX_BLOCK_SIZE), BLOCK_COUNT blocks per table); a user block size (SDsetblocksize) as well
 *   tBuf / tValues  the conversion buffers (whole request; halved after a refused allocation: `alloc_limit`, see hk_calloc above)
 * F (fixed size): the FIRST write of a large data set is a hyperslab in the middle whose first contiguous run begins `lead` bytes into the
 *    variable and ends `trail` bytes before its end, with lead / trail / run length = m * size - 1 element, m * size, m * size + 1 element or
 *    strictly inside a piece (m = 1..3); rank 1..3, unit and non-unit strides, every number type and flavour, fill mode on / off, user /
 *    default fill value, plain / RLE / deflate storage.  The Hwrite calls of that SDwritedata are reported:
 *        T sd fw <element size> <shape> <start> <stride> <count> <fill values are written: 0/1> => <pos>:<len>,<pos>:<len>,...
 *    and h4model recomputes them (`H4.SdPieces.firstWriteLog`: pieces of MAX_SIZE tile the lead and the trail, theorem `pieces_tile`).
 * R (record variable): record sizes around MAX_BLOCK_SIZE / BLOCK_MULT, MAX_BLOCK_SIZE, MAX_SIZE, a user block size and BLOCK_COUNT blocks;
 *    the first write goes to record 0..3 (skipped records are filled by NCcoordck one record per Hwrite), one-dimensional record variables
 *    start at record BLOCK_MULT / BLOCK_MULT * BLOCK_COUNT -1 / +0 / +1.
 * Oracle for both: the shadow n-d array (whole-array read in the session and after reopen, windows and strided reads around every
 * boundary, a second write across a boundary), the extent, the length of the stored element.
 * Failure keys: sd-read-data, sd-fill, sd-valid-rejected, sd-extent, sd-element-length, sd-read-overrun (+ the known NOFILL root-cause suffixes). */
static int big_mode = 0;

/* a byte count one element below / at / one element above m * P (m = 1..mmax), or strictly inside a piece; a multiple of the element size */
static long near_multiple(long P, int e, int mmax)
{
    long v;
    switch ((int)hk_range(0, 4)) {
        case 0: v = hk_range(1, mmax) * P - e; break;
        case 1: v = hk_range(1, mmax) * P; break;
        case 2: v = hk_range(1, mmax) * P + e; break;
        default: v = hk_range(0, mmax - 1) * P + hk_range(1, P - 1); break;
    }
    v -= v % e;
    return v < 0 ? 0 : v;
}

static void unflatten(const Shadow *s, long ix, int32 *c)
{
    for (int i = s->rank - 1; i >= 0; i--) { c[i] = (int32)(ix % s->dims[i]); ix /= s->dims[i]; }
}

/* whole-array read against the shadow (row-major identity: the first dimension is the slowest, so the current extent of an unlimited
   dimension does not change the index of a cell) */
static void big_verify(Shadow *s, int32 sds, const char *when)
{
    int32 start[MAXRANK], count[MAXRANK];
    long n = 1;
    for (int i = 0; i < s->rank; i++) { start[i] = 0; count[i] = (i == 0 && s->unlimited) ? s->extent0 : s->dims[i]; n *= count[i]; }
    if (n == 0) return;
    uint8_t *buf = malloc((size_t)n * s->esz + 8);
    memset(buf, 0x5A, (size_t)n * s->esz + 8);
    s->tail = (s->maxwritten < s->ncells - 1) && strcmp(when, "after-reopen") != 0;
    conv_watch(buf, n * s->esz);
    intn r = SDreaddata(sds, start, NULL, count, buf);
    if (r == FAIL) { hk_fail(KEY(s, "sd-valid-rejected"), "%s whole read failed (%ld cells)", when, n); s->tail = 0; cv_ubuf = NULL; free(buf); return; }
    s->tail = 0;
    if (!conv_tiles(when)) { free(buf); return; }   /* the buffer was filled in the wrong places: reported, nothing to compare */
    long bad_data = 0, bad_fill = 0, first_data = -1, first_fill = -1;
    for (long k = 0; k < n; k++) {
        const uint8_t *got = buf + k * s->esz;
        if (s->written[k] == 2) continue;
        if (s->written[k]) { if (memcmp(got, s->data + k * s->esz, (size_t)s->esz)) { if (!bad_data++) first_data = k; } }
        else if (s->fillmode && !fill_not_whole && memcmp(got, s->fill, (size_t)s->esz)) { if (!bad_fill++) first_fill = k; }
    }
    if (bad_data) hk_fail(KEY(s, "sd-read-data"), "%s: %ld written cell(s) read back differently, first at cell %ld = byte %ld (rank %d nt %d)", when, bad_data, first_data, first_data * s->esz, s->rank, (int)s->nt);
    if (bad_fill) hk_fail("sd-fill", "%s: %ld unwritten cell(s) are not the fill value, first at cell %ld = byte %ld (rank %d nt %d userfill %d unlimited %d)", when, bad_fill, first_fill, first_fill * s->esz, s->rank, (int)s->nt, s->userfill, s->unlimited);
    if (buf[n * s->esz] != 0x5A) hk_fail("sd-read-overrun", "%s", when);
    free(buf);
    hk_stat("big_whole_reads", 1);
}

#define BIG_SLAB 40000
/* one hyperslab read against the shadow; the request is valid by construction */
static void big_read(Shadow *s, int32 sds, const int32 *start, const int32 *stride, const int32 *count, const char *what)
{
    long n = 1;
    for (int i = 0; i < s->rank; i++) n *= count[i];
    if (n > BIG_SLAB) return;
    long *ix = malloc(sizeof(long) * (size_t)n);
    uint8_t *buf = malloc((size_t)n * s->esz + 8);
    memset(buf, 0x5A, (size_t)n * s->esz + 8);
    slab_iter(s, start, stride, count, ix, n);
    s->tail = 0;
    for (long q = 0; q < n; q++) if (ix[q] > s->maxwritten) s->tail = 1;
    int all1 = 1; for (int i = 0; i < s->rank; i++) if (stride[i] != 1) all1 = 0;
    conv_watch(buf, n * s->esz);
    if (SDreaddata(sds, start, all1 && hk_chance(50) ? NULL : stride, count, buf) == FAIL) { hk_fail(KEY(s, "sd-valid-rejected"), "%s read failed", what); cv_ubuf = NULL; }
    else if (conv_tiles(what)) {
        for (long q = 0; q < n; q++) {
            const uint8_t *got = buf + q * s->esz;
            if (s->written[ix[q]] == 2) continue;
            if (s->written[ix[q]]) { if (memcmp(got, s->data + ix[q] * s->esz, (size_t)s->esz)) { hk_fail(KEY(s, "sd-read-data"), "%s: cell %ld = byte %ld differs (rank %d nt %d strided %d)", what, ix[q], ix[q] * s->esz, s->rank, (int)s->nt, !all1); break; } }
            else if (s->fillmode && !fill_not_whole && memcmp(got, s->fill, (size_t)s->esz)) { hk_fail("sd-fill", "%s: unwritten cell %ld = byte %ld is not the fill value (rank %d nt %d userfill %d unlimited %d)", what, ix[q], ix[q] * s->esz, s->rank, (int)s->nt, s->userfill, s->unlimited); break; }
        }
        if (buf[n * s->esz] != 0x5A) hk_fail("sd-read-overrun", "%s", what);
    }
    s->tail = 0;
    free(ix); free(buf);
    hk_stat("big_slab_reads", 1);
}

/* one valid hyperslab write of random bytes, mirrored in the shadow */
static int big_write(Shadow *s, int32 sds, const int32 *start, const int32 *stride, const int32 *count, const char *what)
{
    long n = 1;
    for (int i = 0; i < s->rank; i++) n *= count[i];
    long *ix = malloc(sizeof(long) * (size_t)n);
    uint8_t *buf = malloc((size_t)n * s->esz + 8);
    for (long b = 0; b < n * s->esz; b++) buf[b] = hk_byte();
    slab_iter(s, start, stride, count, ix, n);
    int all1 = 1; for (int i = 0; i < s->rank; i++) if (stride[i] != 1) all1 = 0;
    conv_watch(buf, n * s->esz);
    intn r = SDwritedata(sds, start, all1 && hk_chance(50) ? NULL : stride, count, buf);
    if (r == FAIL) { hk_fail(KEY(s, "sd-valid-rejected"), "%s write rejected (rank %d nt %d)", what, s->rank, (int)s->nt); for (long q = 0; q < n; q++) s->written[ix[q]] = 2; cv_ubuf = NULL; }
    else if (!conv_tiles(what)) {   /* values were taken from the wrong places of the buffer: reported, the cells of the request hold unknown values */
        s->nwrites++;
        for (long q = 0; q < n; q++) { s->written[ix[q]] = 2; if (ix[q] > s->maxwritten) s->maxwritten = ix[q]; }
        if (s->unlimited) { int32 e = start[0] + (count[0] - 1) * stride[0] + 1; if (e > s->extent0) s->extent0 = e; }
    }
    else {
        s->nwrites++;
        for (long q = 0; q < n; q++) { memcpy(s->data + ix[q] * s->esz, buf + q * s->esz, (size_t)s->esz); s->written[ix[q]] = 1; if (ix[q] > s->maxwritten) s->maxwritten = ix[q]; }
        if (s->unlimited) { int32 e = start[0] + (count[0] - 1) * stride[0] + 1; if (e > s->extent0) s->extent0 = e; }
    }
    free(ix); free(buf);
    return r != FAIL;
}

/* a small window (unit stride or strided in the last dimension) around the cell that holds byte `byte` of the variable */
static void big_window(const Shadow *s, long byte, int32 *start, int32 *stride, int32 *count)
{
    long lim = s->unlimited ? (long)s->extent0 * (s->ncells / s->dims[0]) : s->ncells;
    long cell = byte / s->esz;
    if (cell >= lim) cell = lim - 1;
    if (cell < 0) cell = 0;
    unflatten(s, cell, start);
    int last = s->rank - 1;
    long R = (last == 0 && s->unlimited) ? s->extent0 : s->dims[last];
    for (int i = 0; i < s->rank; i++) { stride[i] = 1; count[i] = 1; }
    long lo = start[last] - hk_range(0, 40); if (lo < 0) lo = 0;
    stride[last] = hk_chance(30) ? (int32)hk_range(2, 3) : 1;
    long maxc = (R - 1 - lo) / stride[last] + 1;
    start[last] = (int32)lo;
    count[last] = (int32)hk_range(1, maxc < 90 ? maxc : 90);
    if (last > 0) { /* a few rows */
        long rows = ((last - 1 == 0 && s->unlimited) ? s->extent0 : s->dims[last - 1]) - start[last - 1];
        stride[last - 1] = 1; count[last - 1] = (int32)hk_range(1, rows < 3 ? rows : 3);
    }
}

static void big_element_length(const char *path, uint16 tag, uint16 ref, long expect, const Shadow *s)
{
    int32 fid = Hopen(path, DFACC_READ, 0);
    if (fid == FAIL) { hk_fail("sd-noraw", "Hopen"); return; }
    int32 len = Hlength(fid, tag, ref);
    Hclose(fid);
    if (len != expect) hk_fail(KEY(s, "sd-element-length"), "the data element of the variable is %ld bytes long, the variable has %ld (rank %d nt %d unlimited %d fill %d)", (long)len, expect, s->rank, (int)s->nt, s->unlimited, s->fillmode);
}

static void case_big(int k)
{
    char pname[64]; snprintf(pname, sizeof pname, "b%d.hdf", k);
    const char *path = hk_tmp(pname);
    const long P = (long)MAX_SIZE;
    Shadow s; memset(&s, 0, sizeof s);
    s.nt = TYPES[k % (int)(sizeof TYPES / sizeof TYPES[0])];          /* every number-type size in every run */
    if (hk_chance(25)) s.nt |= DFNT_LITEND; else if (hk_chance(15)) s.nt |= DFNT_NATIVE;
    s.esz = esize(s.nt);
    s.unlimited = ((k + k / 10) % 4 == 3);                             /* (every type meets both kinds within 40 cases) */
    s.fillmode = hk_chance(s.unlimited ? 80 : 75);
    s.userfill = hk_chance(50);
    s.rank = (int)hk_range(1, 3);
    s.maxwritten = -1;
    int e = s.esz;
    int comp = (!s.unlimited && hk_chance(30)) ? (hk_chance(60) ? COMP_CODE_RLE : COMP_CODE_DEFLATE) : COMP_CODE_NONE;
    int32 start[MAXRANK], stride[MAXRANK], count[MAXRANK], cdims[MAXRANK];
    long blocksize = 0;
    for (int i = 0; i < MAXRANK; i++) { start[i] = 0; stride[i] = 1; count[i] = 1; }

    if (!s.unlimited) {
        /* F: first contiguous run = cells [W, W + c) of N */
        long lead, trail, c = hk_range(1, 300), W, N;
        int mode = (int)hk_range(0, 3);                   /* 0 lead exact, 1 trail exact, 2 both (rank 1), 3 a long run */
        if (mode >= 2) s.rank = 1;
        switch (mode) {
            case 0: lead = near_multiple(P, e, 3); trail = e * hk_range(0, P / 2 / e); break;
            case 1: trail = near_multiple(P, e, 3); lead = hk_chance(15) ? 0 : e * hk_range(0, P / 2 / e); break;
            case 2: lead = near_multiple(P, e, 2); trail = near_multiple(P, e, 1); if (hk_chance(50)) { long t = lead; lead = trail; trail = t; } break;
            default: lead = near_multiple(P, e, 1); trail = near_multiple(P, e, 1); c = near_multiple(P, e, 1) / e; if (c < 1) c = 1; break;
        }
        int last = s.rank - 1;
        if (s.rank == 1) { N = lead / e + c + trail / e; s.dims[0] = (int32)N; W = lead / e; }
        else {
            long R = hk_range(c, c + 1500), rows, d1 = 1;
            if (mode == 0) { W = lead / e; if (W % R + c > R) c = R - W % R; }
            long target = lead / e + c + trail / e;
            rows = (target + R - 1) / R;
            if (rows < W / R + 4) rows = W / R + 4;   /* (mode 0: room for a few rows after the first one) */
            if (s.rank == 3) { d1 = hk_range(2, 9); rows = (rows + d1 - 1) / d1 * d1; s.dims[0] = (int32)(rows / d1); s.dims[1] = (int32)d1; }
            else s.dims[0] = (int32)rows;
            s.dims[last] = (int32)R;
            N = rows * R;
            if (mode == 1) { long end = N - trail / e; if (end < 1) end = 1; long col = (end - 1) % R; if (c > col + 1) c = col + 1; W = end - c; }
        }
        s.ncells = N;
        unflatten(&s, W, start);
        count[last] = (int32)c;
        if (hk_chance(25) && c > 2) { stride[last] = (int32)hk_range(2, 3); count[last] = (int32)((c - 1) / stride[last] + 1); if (count[last] > 150) count[last] = 150; }
        for (int i = 0; i < last; i++) {    /* a few rows / planes: more runs after the first one */
            long room = s.dims[i] - start[i];
            stride[i] = hk_chance(25) ? (int32)hk_range(2, 3) : 1;
            count[i] = (int32)hk_range(1, 3);
            while (count[i] > 1 && (long)(count[i] - 1) * stride[i] >= room) count[i]--;
        }
        if (s.rank == 2 && hk_chance(15) && start[1] == 0 && stride[0] == 1) { stride[1] = 1; count[1] = s.dims[1]; } /* whole rows: one long run */
        if (comp != COMP_CODE_NONE)     /* a coded stream is written front to back: ONE contiguous run (anything else is refused by the coders, C05) */
            for (int i = 0; i < s.rank; i++) { stride[i] = 1; if (i < last) count[i] = 1; else count[i] = (int32)c; }
        for (int i = 0; i < s.rank; i++) cdims[i] = s.dims[i];
    }
    else {
        /* R: record variable; M elements per record */
        long M, r0, nrec = hk_range(1, 2);
        int cls = (int)hk_range(0, 5);
        if (s.rank == 1) {
            M = 1;
            long b = hk_chance(50) ? BLOCK_MULT : (long)BLOCK_MULT * BLOCK_COUNT;   /* records per block / per block table */
            r0 = b * hk_range(1, 2) + hk_range(-1, 1);
            nrec = hk_range(1, 3 * BLOCK_MULT);
        }
        else {
            switch (cls) {
                case 0: M = (MAX_BLOCK_SIZE / BLOCK_MULT + e * hk_range(-1, 1)) / e; break;        /* block = record * BLOCK_MULT against MAX_BLOCK_SIZE */
                case 1: M = (MAX_BLOCK_SIZE + e * hk_range(-1, 1)) / e; break;                     /* record against one block */
                case 2: M = (P + e * hk_range(-1, 1)) / e; break;                                   /* record against the fill piece */
                case 5: M = (P + e * hk_range(1, 64)) / e; break;                                   /* ... a record longer than a piece */
                case 3: blocksize = hk_range(64, 4096); M = (blocksize + e * hk_range(-1, 1)) / e; break;   /* record against a user block */
                default: blocksize = hk_range(16, 512); M = (blocksize * BLOCK_COUNT / 3 + e * hk_range(-1, 1)) / e; break; /* 3 records against one block table */
            }
            if (M < 1) M = 1;
            r0 = hk_range(0, 3);
        }
        long a = 1;
        if (s.rank == 3) { for (long d = 9; d >= 2; d--) if (M % d == 0) { a = d; break; } if (a == 1) s.rank = 2; }
        s.dims[0] = (int32)(r0 + nrec + 2);
        if (s.rank == 2) s.dims[1] = (int32)M;
        if (s.rank == 3) { s.dims[1] = (int32)a; s.dims[2] = (int32)(M / a); }
        s.ncells = (long)s.dims[0] * M;
        start[0] = (int32)r0; count[0] = (int32)nrec;
        if (s.rank > 1 && s.fillmode && hk_chance(60)) {           /* part of a record (NOFILL: whole records from record 0, see KEY) */
            int last = s.rank - 1;
            start[last] = (int32)hk_range(0, s.dims[last] - 1);
            count[last] = (int32)hk_range(1, s.dims[last] - start[last]);
            if (count[last] > 2000) count[last] = 2000;
            if (s.rank == 3) { start[1] = (int32)hk_range(0, s.dims[1] - 1); count[1] = (int32)hk_range(1, s.dims[1] - start[1]); }
        }
        else for (int i = 1; i < s.rank; i++) count[i] = s.dims[i];
        if (!s.fillmode) start[0] = 0;
        if (s.rank > 1 && hk_chance(20) && nrec > 1) { stride[0] = 2; s.dims[0] += (int32)nrec; s.ncells = (long)s.dims[0] * M; }
        for (int i = 0; i < s.rank; i++) cdims[i] = s.dims[i];
        cdims[0] = SD_UNLIMITED;
    }
    s.data = calloc((size_t)s.ncells, (size_t)s.esz); s.written = calloc((size_t)s.ncells, 1);
    if (s.userfill) for (int i = 0; i < s.esz; i++) s.fill[i] = hk_byte(); else default_fill(s.nt, s.fill);

    int32 sd = SDstart(path, DFACC_CREATE);
    if (sd == FAIL) { hk_fail("sd-start", "create"); goto out; }
    if (!s.fillmode) SDsetfillmode(sd, SD_NOFILL);
    int32 sds = SDcreate(sd, "big", s.nt, s.rank, cdims);
    if (sds == FAIL) { hk_fail("sd-create", "rank %d nt %d", s.rank, (int)s.nt); SDend(sd); goto out; }
    if (s.userfill && SDsetfillvalue(sds, s.fill) == FAIL) hk_fail("sd-setfill", "nt %d", (int)s.nt);
    if (blocksize) { if (SDsetblocksize(sds, (int32)blocksize) == FAIL) hk_fail("sd-setblocksize", "%ld", blocksize); s.smallblocks = 1; }
    if (comp != COMP_CODE_NONE) {
        comp_info ci; memset(&ci, 0, sizeof ci); ci.deflate.level = 1;
        if (SDsetcompress(sds, (comp_coder_t)comp, &ci) == FAIL) { hk_fail("sd-setcompress", "coder %d", comp); comp = COMP_CODE_NONE; }
    }
    printf("INFO big rank=%d nt=%d unlimited=%d fill=%d userfill=%d comp=%d blocksize=%ld dims=", s.rank, (int)s.nt, s.unlimited, s.fillmode, s.userfill, comp, blocksize); print_list(s.dims, s.rank);
    printf(" start="); print_list(start, s.rank); printf(" stride="); print_list(stride, s.rank); printf(" count="); print_list(count, s.rank); printf("\n");
    hk_stat(s.unlimited ? "big_record" : "big_fixed", 1);

    /* memory pressure: every request of the data path for a conversion buffer above `alloc_limit` bytes is refused */
    SDPfreebuf();
    alloc_limit = 0; alloc_refused = 0; cur_esz = e; fill_not_whole = 0;
    long pressure = 0;
    if (hk_chance(20)) pressure = hk_chance(30) ? hk_range(e, 64 * e) : hk_range(300, 60000 * e);   /* bytes: room for one element at least (below that FAIL is the right answer); need not be a multiple of the element size */
    alloc_limit = pressure;
    printf("INFO alloc_limit=%ld\n", alloc_limit);
    if (pressure) hk_stat("big_pressure_cases", 1);
    /* the first write, with the Hwrite calls of the data path logged */
    hw_on = 1; hw_n = 0; hw_lost = 0;
    int ok = big_write(&s, sds, start, stride, count, "first");
    hw_on = 0;
    if (!s.unlimited && ok && !hw_lost && !alloc_refused) {     /* (the model has no refused allocations) */
        printf("T sd fw %d ", e); print_list(s.dims, s.rank); printf(" "); print_list(start, s.rank); printf(" "); print_list(stride, s.rank); printf(" "); print_list(count, s.rank);
        printf(" %d => ", (s.fillmode || comp != COMP_CODE_NONE) ? 1 : 0);
        if (hw_n == 0) printf("-");
        for (int i = 0; i < hw_n; i++) printf(i ? ",%ld:%ld" : "%ld:%ld", hw_log[i].pos, hw_log[i].len);
        printf("\n");
        hk_stat("big_fw_lines", 1);
        if (hw_n > 2) hk_stat("big_fw_multi_piece", 1);
    }
    uint16 dtag = 0, dref = 0;
    { NC *handle = NC_check_id((int)((sd >> 20) & 0xfff)); NC_var *vp = handle ? NC_hlookupvar(handle, (int)(sds & 0xffff)) : NULL; if (vp) { dtag = vp->data_tag; dref = vp->data_ref; } }
    long reclen = s.unlimited ? s.ncells / s.dims[0] * e : 0;

    /* the positions at which something internal changes: multiples of the piece / block sizes, both ends of the first run */
    long marks[24]; int nm = 0;
    {
        long total = (s.unlimited ? (long)s.extent0 * (s.ncells / s.dims[0]) : s.ncells) * e, first = cell_index(&s, start) * (long)e;
        marks[nm++] = first; marks[nm++] = first + (long)count[s.rank - 1] * e; marks[nm++] = 0; marks[nm++] = total - e;
        for (long m = 1; m * P < total && nm < 12; m++) marks[nm++] = m * P;
        long blk = s.unlimited ? (blocksize ? blocksize : (reclen > MAX_BLOCK_SIZE ? MAX_BLOCK_SIZE : (reclen * BLOCK_MULT > MAX_BLOCK_SIZE ? MAX_BLOCK_SIZE : reclen * BLOCK_MULT))) : 0;
        if (blk > 0) { for (long m = 1; m * blk < total && nm < 18; m++) marks[nm++] = m * blk; if (blk * BLOCK_COUNT < total) marks[nm++] = blk * BLOCK_COUNT; }
        if (reclen > 0) for (long m = 1; m * reclen < total && nm < 24; m++) marks[nm++] = m * reclen;
    }
    int32 ws[MAXRANK], wst[MAXRANK], wc[MAXRANK];
    for (int i = 0; i < nm; i++) { big_window(&s, marks[i] - (hk_chance(50) ? e : 0), ws, wst, wc); big_read(&s, sds, ws, wst, wc, "window"); }
    int sized = s.fillmode || comp != COMP_CODE_NONE || s.unlimited || s.maxwritten == s.ncells - 1;   /* else the known :nofill-unwritten-tail applies to a whole read */
    if (pressure && pressure < 300) alloc_limit = 0;       /* (whole reads in blocks of a few bytes: the windows cover that) */
    if (sized) big_verify(&s, sds, "after-first-write");
    alloc_limit = pressure;
    /* later writes across the boundaries (a compressed element is written once: rewriting inside a coded stream is C05's subject) */
    if (comp == COMP_CODE_NONE && ok) {
        int nw = (int)hk_range(1, 3);
        for (int w = 0; w < nw; w++) {
            big_window(&s, marks[hk_range(0, nm - 1)], ws, wst, wc);
            if (s.unlimited && !s.fillmode) continue;
            big_write(&s, sds, ws, wst, wc, "later");
            big_window(&s, marks[hk_range(0, nm - 1)], ws, wst, wc); big_read(&s, sds, ws, wst, wc, "window-2");
        }
        if (pressure && pressure < 300) alloc_limit = 0;
        if (sized) big_verify(&s, sds, "end-of-session");
        alloc_limit = pressure;
    }
    {
        int32 r_, d_[MAXRANK], nt_, na_; char nmb[64];
        if (SDgetinfo(sds, nmb, &r_, d_, &nt_, &na_) == FAIL) hk_fail("sd-getinfo", "in session");
        else if (s.unlimited && d_[0] != s.extent0) hk_fail(KEY(&s, "sd-extent"), "in-session extent %d expected %d", (int)d_[0], (int)s.extent0);
    }
    SDendaccess(sds);
    if (SDend(sd) == FAIL) hk_fail(KEY(&s, "sd-end"), "SDend");
    if (ok && dref != 0) big_element_length(path, dtag, dref, s.unlimited ? (long)s.extent0 * reclen : s.ncells * (long)e, &s);
    sd = SDstart(path, hk_chance(50) ? DFACC_READ : DFACC_RDWR);
    if (sd == FAIL) { hk_fail("sd-restart", "SDstart"); goto out; }
    sds = SDselect(sd, 0);
    {
        int32 r_, d_[MAXRANK], nt_, na_; char nmb[64];
        if (SDgetinfo(sds, nmb, &r_, d_, &nt_, &na_) == FAIL) hk_fail("sd-getinfo", "after reopen");
        else if (s.unlimited && d_[0] != s.extent0) hk_fail(KEY(&s, "sd-extent"), "after reopen extent %d expected %d", (int)d_[0], (int)s.extent0);
    }
    s.maxwritten = s.ncells;
    if (pressure && pressure < 300) alloc_limit = 0;
    big_verify(&s, sds, "after-reopen");
    alloc_limit = pressure;
    for (int i = 0; i < nm && i < 6; i++) { big_window(&s, marks[i], ws, wst, wc); big_read(&s, sds, ws, wst, wc, "window-reopened"); }
    SDendaccess(sds); SDend(sd);
out:
    if (alloc_refused) hk_stat("big_alloc_refused", alloc_refused);
    alloc_limit = 0; cur_esz = 0; SDPfreebuf();
    unlink(path);
    free(s.data); free(s.written);
}

/* ---------------------------------------------------------------- kind E/N: netCDF-classic files behind the SD interface
 * Such a file is read and written through a buffered XDR stream whose page is BIOBUFSIZ bytes (hdf_xdr.c; the constant is private to that
 * file: generated as H4.Gen.XdrBuf.BIOBUFSIZ and read here from the same text by `page_size`).  The library only opens such files, it never
 * creates them, so the case writes one itself (CDF-1: header, one fixed-size variable, one record variable, big-endian values, byte and
 * short rows padded to 4 bytes) with the variables placed so that their first / last bytes and the ends of the rows lie one element below,
 * at, one element above a page boundary; then hyperslab reads (windows around every page boundary, strided, whole), for DFACC_RDWR also
 * writes across the boundaries, SDend, the raw file bytes and a re-read.  Oracle: the shadow array and the file image.
 * Failure keys: nc-open, nc-info, sd-read-data, sd-valid-rejected, nc-file-bytes (a byte of the file outside / inside the written cells). */
static long page_size(void)
{
    static long v = -1;
    if (v >= 0) return v;
    v = 0;
    char path[600]; snprintf(path, sizeof path, "%s/mfhdf/src/hdf_xdr.c", REPO);
    FILE *f = fopen(path, "r");
    if (f) { char line[400]; while (fgets(line, sizeof line, f)) { long x; if (sscanf(line, "#define BIOBUFSIZ %ld", &x) == 1) { v = x; break; } } fclose(f); }
    return v;
}

static void be32(uint8_t *p, uint32_t v) { p[0] = (uint8_t)(v >> 24); p[1] = (uint8_t)(v >> 16); p[2] = (uint8_t)(v >> 8); p[3] = (uint8_t)v; }
static long nc_put_name(uint8_t *h, long o, const char *nm) { long n = (long)strlen(nm); be32(h + o, (uint32_t)n); o += 4; memcpy(h + o, nm, (size_t)n); o += (n + 3) / 4 * 4; return o; }

typedef struct { int nct, xsz; int32 nt; int rank; int32 dims[3]; long begin, vsize, ncell; uint8_t *val; } NcVar;   /* val: native-order elements */

/* value k of a variable as it stands in the file (big-endian) */
static void nc_file_elem(const NcVar *v, long k, uint8_t *out) { for (int b = 0; b < v->xsz; b++) out[b] = v->val[k * v->xsz + (v->xsz - 1 - b)]; }

static void nc_check_slab(const NcVar *v, int32 sds, int recs, const int32 *start, const int32 *stride, const int32 *count, const char *what)
{
    Shadow s; memset(&s, 0, sizeof s);
    s.rank = v->rank; s.esz = v->xsz; for (int i = 0; i < v->rank; i++) s.dims[i] = v->dims[i];
    if (recs >= 0) s.dims[0] = recs;
    long n = 1; for (int i = 0; i < v->rank; i++) n *= count[i];
    long *ix = malloc(sizeof(long) * (size_t)n);
    uint8_t *buf = malloc((size_t)n * v->xsz + 8);
    memset(buf, 0x5A, (size_t)n * v->xsz + 8);
    slab_iter(&s, start, stride, count, ix, n);
    int all1 = 1; for (int i = 0; i < v->rank; i++) if (stride[i] != 1) all1 = 0;
    if (SDreaddata(sds, (int32 *)start, all1 && hk_chance(50) ? NULL : (int32 *)stride, (int32 *)count, buf) == FAIL) hk_fail("sd-valid-rejected", "netCDF %s read failed (nc type %d rank %d)", what, v->nct, v->rank);
    else {
        for (long q = 0; q < n; q++)
            if (memcmp(buf + q * v->xsz, v->val + ix[q] * v->xsz, (size_t)v->xsz)) { hk_fail("sd-read-data", "netCDF %s: cell %ld = file byte %ld differs (nc type %d rank %d strided %d)", what, ix[q], v->begin + ix[q] * v->xsz, v->nct, v->rank, !all1); break; }
        if (buf[n * v->xsz] != 0x5A) hk_fail("sd-read-overrun", "netCDF %s", what);
    }
    free(ix); free(buf);
    hk_stat("nc_slab_reads", 1);
}

static void nc_write_slab(NcVar *v, int32 sds, int recs, const int32 *start, const int32 *stride, const int32 *count, uint8_t *touched)
{
    Shadow s; memset(&s, 0, sizeof s);
    s.rank = v->rank; s.esz = v->xsz; for (int i = 0; i < v->rank; i++) s.dims[i] = v->dims[i];
    if (recs >= 0) s.dims[0] = recs;
    long n = 1; for (int i = 0; i < v->rank; i++) n *= count[i];
    long *ix = malloc(sizeof(long) * (size_t)n);
    uint8_t *buf = malloc((size_t)n * v->xsz + 8);
    for (long b = 0; b < n * v->xsz; b++) buf[b] = hk_byte();
    slab_iter(&s, start, stride, count, ix, n);
    int all1 = 1; for (int i = 0; i < v->rank; i++) if (stride[i] != 1) all1 = 0;
    if (SDwritedata(sds, (int32 *)start, all1 && hk_chance(50) ? NULL : (int32 *)stride, (int32 *)count, buf) == FAIL) { hk_fail("sd-valid-rejected", "netCDF write rejected (nc type %d rank %d)", v->nct, v->rank); for (long q = 0; q < n; q++) touched[ix[q]] = 2; }
    else for (long q = 0; q < n; q++) { memcpy(v->val + ix[q] * v->xsz, buf + q * v->xsz, (size_t)v->xsz); touched[ix[q]] = 1; }
    free(ix); free(buf);
    hk_stat("nc_slab_writes", 1);
}

/* a window around the cell of variable v that holds file byte `fbyte` */
static void nc_window(const NcVar *v, int recs, long recsize, long fbyte, int32 *start, int32 *stride, int32 *count)
{
    long percell = v->ncell, cell;
    if (recs >= 0) { long r = (fbyte - v->begin) / recsize; if (r < 0) r = 0; if (r >= recs) r = recs - 1; long in = (fbyte - v->begin - r * recsize) / v->xsz; if (in < 0) in = 0; if (in >= percell) in = percell - 1; cell = r * percell + in; }
    else { cell = (fbyte - v->begin) / v->xsz; if (cell < 0) cell = 0; if (cell >= percell) cell = percell - 1; }
    int32 d[3]; for (int i = 0; i < v->rank; i++) d[i] = v->dims[i]; if (recs >= 0) d[0] = recs;
    for (int i = v->rank - 1; i >= 0; i--) { start[i] = (int32)(cell % d[i]); cell /= d[i]; stride[i] = 1; count[i] = 1; }
    int last = v->rank - 1;
    long lo = start[last] - hk_range(0, 9); if (lo < 0) lo = 0;
    stride[last] = hk_chance(30) ? (int32)hk_range(2, 3) : 1;
    long maxc = (d[last] - 1 - lo) / stride[last] + 1;
    start[last] = (int32)lo; count[last] = (int32)hk_range(1, maxc < 24 ? maxc : 24);
    if (last > 0) { long rows = d[last - 1] - start[last - 1]; count[last - 1] = (int32)hk_range(1, rows < 3 ? rows : 3); }
}

static void case_netcdf(int k)
{
    static const int XSZ[7] = {0, 1, 1, 2, 4, 4, 8};
    static const int32 NTOF[7] = {0, DFNT_INT8, DFNT_CHAR8, DFNT_INT16, DFNT_INT32, DFNT_FLOAT32, DFNT_FLOAT64};
    const long B = page_size();
    if (B <= 0) { hk_fail("nc-page-size", "BIOBUFSIZ not found in hdf_xdr.c"); return; }
    char pname[64]; snprintf(pname, sizeof pname, "n%d.nc", k);
    const char *path = hk_tmp(pname);
    NcVar fx, rc; memset(&fx, 0, sizeof fx); memset(&rc, 0, sizeof rc);
    fx.nct = 1 + (k / 8) % 6; fx.xsz = XSZ[fx.nct]; fx.nt = NTOF[fx.nct];
    rc.nct = (int)hk_range(1, 6); rc.xsz = XSZ[rc.nct]; rc.nt = NTOF[rc.nct];
    int e = fx.xsz;
    /* fixed-size variable: begins `a` bytes before a page boundary, ends one element below / at / above another one */
    long a = hk_chance(30) ? 0 : 4 * hk_range(0, 3) + (hk_chance(40) ? 4 * hk_range(1, B / 8) : 0);
    long fbytes = hk_range(1, 3) * B + a + e * hk_range(-1, 1) + (hk_chance(30) ? e * hk_range(2, 400) : 0);
    fx.rank = (int)hk_range(1, 2);
    if (fx.rank == 1) { fx.dims[0] = (int32)(fbytes / e); }
    else { long R = hk_chance(40) ? (B + e * hk_range(-1, 1)) / e : hk_range(3, 700); fx.dims[1] = (int32)R; fx.dims[0] = (int32)((fbytes / e + R - 1) / R); }
    fx.ncell = fx.rank == 1 ? fx.dims[0] : (long)fx.dims[0] * fx.dims[1];
    fx.vsize = (fx.ncell * e + 3) / 4 * 4;
    /* record variable: M elements per record, record size a multiple of 4 around one page (or small), 2..5 records */
    long M = hk_chance(60) ? (B + 4 * hk_range(-1, 1)) / rc.xsz : hk_range(1, 300) * (4 / (rc.xsz > 4 ? 4 : rc.xsz));
    if (M * rc.xsz % 4) M += (4 - M * rc.xsz % 4) / rc.xsz;
    int recs = (int)hk_range(2, 5);
    rc.rank = 2; rc.dims[0] = recs; rc.dims[1] = (int32)M; rc.ncell = M; rc.vsize = M * rc.xsz;
    /* header */
    uint8_t *h = calloc(1, 4096); long o = 0;
    memcpy(h, "CDF\001", 4); o = 4; be32(h + o, (uint32_t)recs); o += 4;
    be32(h + o, 10); o += 4; be32(h + o, (uint32_t)(fx.rank + 2)); o += 4;                 /* NC_DIMENSION */
    o = nc_put_name(h, o, "t"); be32(h + o, 0); o += 4;                                     /* dim 0: the record dimension */
    o = nc_put_name(h, o, "m"); be32(h + o, (uint32_t)M); o += 4;
    o = nc_put_name(h, o, "y"); be32(h + o, (uint32_t)fx.dims[0]); o += 4;
    if (fx.rank == 2) { o = nc_put_name(h, o, "x"); be32(h + o, (uint32_t)fx.dims[1]); o += 4; }
    be32(h + o, 0); o += 4; be32(h + o, 0); o += 4;                                         /* no global attributes */
    be32(h + o, 11); o += 4; be32(h + o, 2); o += 4;                                        /* NC_VARIABLE */
    o = nc_put_name(h, o, "fx"); be32(h + o, (uint32_t)fx.rank); o += 4; be32(h + o, 2); o += 4; if (fx.rank == 2) { be32(h + o, 3); o += 4; }
    be32(h + o, 0); o += 4; be32(h + o, 0); o += 4; be32(h + o, (uint32_t)fx.nct); o += 4; be32(h + o, (uint32_t)fx.vsize); o += 4;
    long fx_begin_at = o; o += 4;
    o = nc_put_name(h, o, "rc"); be32(h + o, 2); o += 4; be32(h + o, 0); o += 4; be32(h + o, 1); o += 4;
    be32(h + o, 0); o += 4; be32(h + o, 0); o += 4; be32(h + o, (uint32_t)rc.nct); o += 4; be32(h + o, (uint32_t)rc.vsize); o += 4;
    long rc_begin_at = o; o += 4;
    long hlen = o;
    fx.begin = B - a; if (fx.begin < hlen) fx.begin += B;
    rc.begin = fx.begin + fx.vsize + 4 * hk_range(0, 5);
    if (hk_chance(40)) rc.begin = (rc.begin + B - 1) / B * B - 4 * hk_range(0, 2);
    if (rc.begin < fx.begin + fx.vsize) rc.begin = fx.begin + fx.vsize;
    be32(h + fx_begin_at, (uint32_t)fx.begin); be32(h + rc_begin_at, (uint32_t)rc.begin);
    long flen = rc.begin + (long)recs * rc.vsize;
    uint8_t *img = calloc(1, (size_t)flen);
    memcpy(img, h, (size_t)hlen); free(h);
    fx.val = malloc((size_t)fx.ncell * fx.xsz); rc.val = malloc((size_t)recs * M * rc.xsz);
    for (long b = 0; b < fx.ncell * fx.xsz; b++) fx.val[b] = hk_byte();
    for (long b = 0; b < recs * M * rc.xsz; b++) rc.val[b] = hk_byte();
    for (long q = 0; q < fx.ncell; q++) nc_file_elem(&fx, q, img + fx.begin + q * fx.xsz);
    for (long q = 0; q < recs * M; q++) nc_file_elem(&rc, q, img + rc.begin + q * rc.xsz);
    { FILE *f = fopen(path, "wb"); if (!f || fwrite(img, 1, (size_t)flen, f) != (size_t)flen) { hk_fail("nc-open", "cannot write %s", path); if (f) fclose(f); goto out; } fclose(f); }
    printf("INFO netcdf page=%ld fx: type=%d rank=%d dims=%d,%d begin=%ld bytes=%ld  rc: type=%d recs=%d M=%ld begin=%ld recsize=%ld\n", B, fx.nct, fx.rank, (int)fx.dims[0], (int)fx.dims[1], fx.begin, fx.ncell * e, rc.nct, recs, M, rc.begin, rc.vsize);
    hk_stat("big_netcdf", 1);

    int rw = hk_chance(60);
    int32 sd = SDstart(path, rw ? DFACC_RDWR : DFACC_READ);
    if (sd == FAIL) { hk_fail("nc-open", "SDstart on a netCDF-classic file (rw %d)", rw); goto out; }
    int32 nds = 0, nga = 0;
    if (SDfileinfo(sd, &nds, &nga) == FAIL || nds != 2) { hk_fail("nc-info", "SDfileinfo: %d data sets, 2 expected", (int)nds); SDend(sd); goto out; }
    NcVar *vs[2] = {&fx, &rc};
    uint8_t *touched[2] = {calloc((size_t)fx.ncell, 1), calloc((size_t)recs * M, 1)};
    for (int pass = 0; pass < 2; pass++) {
        for (int vi = 0; vi < 2; vi++) {
            NcVar *v = vs[vi];
            int isrec = vi == 1;
            int32 sds = SDselect(sd, vi), r_, d_[MAXRANK], nt_, na_; char nmb[64];
            if (sds == FAIL || SDgetinfo(sds, nmb, &r_, d_, &nt_, &na_) == FAIL) { hk_fail("nc-info", "SDselect / SDgetinfo %d", vi); continue; }
            int okinfo = r_ == v->rank && nt_ == v->nt;
            for (int i = 0; i < v->rank && okinfo; i++) if (d_[i] != v->dims[i]) okinfo = 0;
            if (!okinfo) { hk_fail("nc-info", "data set %d: rank %d nt %d dims %d,%d; expected rank %d nt %d dims %d,%d", vi, (int)r_, (int)nt_, (int)d_[0], (int)d_[1], v->rank, (int)v->nt, (int)v->dims[0], (int)v->dims[1]); SDendaccess(sds); continue; }
            long vbytes = isrec ? (long)recs * rc.vsize : v->ncell * v->xsz;
            int32 ws[3], wst[3], wc[3];
            /* every page boundary inside the variable, both ends */
            for (long pb = (v->begin / B) * B; pb <= v->begin + vbytes + B; pb += B) {
                for (int side = 0; side < 2; side++) {
                    nc_window(v, isrec ? recs : -1, rc.vsize, pb - (side ? v->xsz : 0), ws, wst, wc);
                    if (rw && pass == 0 && hk_chance(50)) nc_write_slab(v, sds, isrec ? recs : -1, ws, wst, wc, touched[vi]);
                    nc_window(v, isrec ? recs : -1, rc.vsize, pb - (side ? v->xsz : 0), ws, wst, wc);
                    nc_check_slab(v, sds, isrec ? recs : -1, ws, wst, wc, pass ? "window-reopened" : "window");
                }
            }
            for (int i = 0; i < v->rank; i++) { ws[i] = 0; wst[i] = 1; wc[i] = v->dims[i]; }
            nc_check_slab(v, sds, isrec ? recs : -1, ws, wst, wc, pass ? "whole-reopened" : "whole");
            SDendaccess(sds);
        }
        if (SDend(sd) == FAIL) hk_fail("sd-end", "SDend on a netCDF-classic file (rw %d)", rw);
        sd = FAIL;
        if (pass == 0) {
            /* the file itself: every byte outside the cells written is what it was, every cell written holds the big-endian value */
            FILE *f = fopen(path, "rb"); uint8_t *now = calloc(1, (size_t)flen + 16); long got = f ? (long)fread(now, 1, (size_t)flen + 16, f) : -1; if (f) fclose(f);
            for (int vi = 0; vi < 2; vi++) { NcVar *v = vs[vi]; long nc_ = vi ? recs * M : fx.ncell; for (long q = 0; q < nc_; q++) if (touched[vi][q] == 1) nc_file_elem(v, q, img + v->begin + q * v->xsz); else if (touched[vi][q] == 2) memcpy(img + v->begin + q * v->xsz, now + v->begin + q * v->xsz, (size_t)v->xsz); }
            if (got != flen) hk_fail("nc-file-bytes", "the file is %ld bytes long after the session, %ld before (rw %d)", got, flen, rw);
            else for (long b = 0; b < flen; b++) if (now[b] != img[b]) { hk_fail("nc-file-bytes", "file byte %ld is 0x%02x, expected 0x%02x (header %ld, fx %ld..%ld, rc %ld.., page %ld, rw %d)", b, now[b], img[b], hlen, fx.begin, fx.begin + fx.ncell * e, rc.begin, B, rw); break; }
            free(now);
            sd = SDstart(path, DFACC_READ);
            if (sd == FAIL) { hk_fail("nc-open", "SDstart after the session"); break; }
        }
    }
    free(touched[0]); free(touched[1]);
out:
    unlink(path);
    free(img); free(fx.val); free(rc.val);
}

static void run_case(int k)
{
    if (big_mode) { if (k % 8 == 5) case_netcdf(k); else case_big(k); return; }
    if (k % 3 == 0) case_placement(k); else case_array(k);
    case_maxcontig(); /* after the older kinds: their random streams stay what they were */
    case_shape_unit();
    case_coordck_unit();
}

int main(int argc, char **argv)
{
    extern int H4_ncopts; H4_ncopts = getenv("HK_DEBUG") ? 2 : 0;
    if (argc > 4 && strcmp(argv[4], "big") == 0) big_mode = 1;
    return hk_main(argc, argv, "sd");
}
