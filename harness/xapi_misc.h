/* xapi_misc.h - C15 engine part: record codecs direct, DFAN <-> AN, nc* <-> SD, legacy files (included by e_xapi.c) */

/* ------------------------------------------------------------------------------------------------ record codecs, direct */
static void case_codecs(void)
{
    const char *path = strdup(cpath("codec"));
#ifndef NO_MFGR_INCLUDE
    /* the real Decode_diminfo (mfgr.c) on arbitrary 20-byte records */
    for (int rep = 0; rep < 6; rep++) {
        uint8_t rec[20]; dim_info_t di;
        for (int i = 0; i < 20; i++) rec[i] = hk_chance(30) ? (uint8_t)(hk_chance(50) ? 0xff : 0x80) : (hk_chance(30) ? 0 : hk_byte());
        memset(&di, 0, sizeof di);
        Decode_diminfo(rec, &di);
        printf("T xapi dimrd mfgr "); hk_hex(rec, 20); printf(" => %d %d %d %d %d %d %d %d\n", (int)di.xdim, (int)di.ydim, di.nt_tag, di.nt_ref, (int)di.ncomps, (int)di.il, di.comp_tag, di.comp_ref);
        hk_stat("codec_dim", 1);
    }
#endif
#ifndef NO_HDFSDS_INCLUDE
    /* the real hdf_read_rank + hdf_read_dimsizes (hdfsds.c) on complete DFTAG_SDD records with any int16 rank and any int32 sizes */
    int32 fid = Hopen(path, DFACC_CREATE, 0);
    if (fid == FAIL) { hk_fail("xapi-codec:open", "Hopen"); free((void *)path); return; }
    for (int rep = 0; rep < 5; rep++) {
        uint8_t rec[2 + 8 * 12 + 8], *p = rec;
        int rank = hk_chance(20) ? (int)hk_range(-3, 0) : (int)hk_range(1, 10);
        int wr = rank < 0 ? 0 : rank; /* dimension slots physically present */
        if (hk_chance(5)) { rank = 0x8000 + wr; rank = (int16)rank; } /* negative int16 with room for the slots */
        UINT16ENCODE(p, (uint16)rank);
        int32 dims[12]; int anyneg = 0;
        for (int i = 0; i < wr; i++) {
            dims[i] = hk_chance(10) ? -(int32)hk_range(1, 100000) : hk_chance(10) ? 0x7fffffff : hk_chance(10) ? 0 : (int32)hk_range(1, 100000);
            if (dims[i] < 0) anyneg = 1;
            INT32ENCODE(p, dims[i]);
        }
        for (int i = 0; i <= wr; i++) { UINT16ENCODE(p, DFTAG_NT); UINT16ENCODE(p, (uint16)(rep + 1)); }
        uint16 ref = (uint16)(rep + 1);
        int len = (int)(p - rec);
        if (Hputelement(fid, DFTAG_SDD, ref, rec, len) == FAIL) { hk_fail("xapi-codec:put", "Hputelement"); continue; }
        int32 aid = Hstartread(fid, DFTAG_SDD, ref);
        if (aid == FAIL) { hk_fail("xapi-codec:read", "Hstartread"); continue; }
        int16 rk = 0; int32 got[16];
        hdf_err_code_t e = hdf_read_rank(aid, &rk);
        printf("T xapi sddrd sd "); hk_hex(rec, (size_t)len); printf(" => ");
        if (e != DFE_NONE) { printf("fail\n"); if ((int16)rank > 0) hk_fail("xapi-codec:rank", "hdf_read_rank rejects rank %d", rank); }
        else {
            if (rk != (int16)rank || rk <= 0) hk_fail("xapi-codec:rank", "hdf_read_rank = %d for a record with rank %d", rk, rank);
            e = rk <= 12 ? hdf_read_dimsizes(aid, rk, got) : DFE_RANGE;
            if (e != DFE_NONE) { printf("fail\n"); if (!anyneg) hk_fail("xapi-codec:dims", "hdf_read_dimsizes fails on non-negative sizes"); }
            else { put_intlist(got, rk); printf("\n"); for (int i = 0; i < rk; i++) if (got[i] != dims[i]) hk_fail("xapi-codec:dims", "size %d read as %d written %d", i, (int)got[i], (int)dims[i]); }
        }
        Hendaccess(aid);
        hk_stat("codec_sdd", 1);
    }
    Hclose(fid);
#endif
    free((void *)path);
}

#include "xapi_an.h"
#include "xapi_nc.h"
#include "xapi_legacy.h"
